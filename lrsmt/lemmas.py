#!/usr/bin/env python3
"""lrsmt - SMT lemmas over the LALR(1) tables bison generates from the current parser.y (DESIGN.md 2.2).

The tables yytranslate / yypact / yydefact / yypgoto / yydefgoto / yytable / yycheck / yyr1 / yyr2 are read out of the generated parser and
given to Z3 as arrays; ACTION(state, token) and GOTO(state, nonterminal) are defined in SMT exactly as the yacc.c skeleton computes them.
Every lemma quantifies over ALL automaton states (a symbolic state variable) and symbolic tokens, so it holds for every context and every
nesting depth in which the configuration can arise; `unsat` of the negated lemma = the lemma holds.  Semantic actions are not part of this
(llsx executes them); the operator table below is the oracle written from the language reference.

usage: lemmas.py <parser.y> <workdir> <out.json> [quick|thorough]
"""
import sys, re, json, time, subprocess, os
import z3

def main():
    grammar, work, out, tier = sys.argv[1], sys.argv[2], sys.argv[3], (sys.argv[4] if len(sys.argv) > 4 else 'quick')
    os.makedirs(work, exist_ok=True)
    t_start = time.time()
    r = subprocess.run(['bison', '-v', '-putap_', '-bparser', grammar, '--output=' + os.path.join(work, 'p.cpp'), '--defines=' + os.path.join(work, 'p.hpp')], stdout=subprocess.PIPE, stderr=subprocess.STDOUT, text=True)
    if r.returncode != 0:
        json.dump({'name': 'lrsmt', 'inconclusive': 'bison failed: ' + r.stdout[-300:]}, open(out, 'w')); return 0
    src = open(os.path.join(work, 'p.cpp')).read(); hpp = open(os.path.join(work, 'p.hpp')).read(); rep = open(os.path.join(work, 'p.output')).read()

    def arr(name):
        m = re.search(r'static const (?:yytype_\w+|short|signed char|unsigned char|int|yy\w+) ' + name + r'\[\] =\s*\{(.*?)\};', src, re.S)
        return [int(x) for x in re.sub(r'/\*.*?\*/', '', m.group(1), flags=re.S).replace('\n', ' ').split(',') if x.strip()]
    def define(name):
        return int(re.search(r'#define ' + name + r'\s+\(?(-?\d+)\)?', src).group(1))
    T = {n: arr(n) for n in ['yytranslate', 'yypact', 'yydefact', 'yypgoto', 'yydefgoto', 'yytable', 'yycheck', 'yyr1', 'yyr2']}
    YYLAST, YYNTOKENS, PNINF, TNINF = define('YYLAST'), define('YYNTOKENS'), define('YYPACT_NINF'), define('YYTABLE_NINF')
    sym = {k: int(v) for k, v in re.findall(r'YYSYMBOL_(\w+) = (\d+)', src)}
    tok = {k: int(v) for k, v in re.findall(r'^\s+(T_\w+) = (\d+)', hpp, re.M)}
    def S(t):   # internal symbol number of a token given by name or by character
        return T['yytranslate'][tok[t]] if t in tok else T['yytranslate'][ord(t)]
    nstates = len(T['yypact'])
    # rules: number -> (lhs, [rhs symbols]) from the report
    rules = {}
    lhs = None
    for line in rep[rep.index('\nGrammar\n'):rep.index('\nTerminals')].split('\n'):
        m = re.match(r'\s*(\d+) (\S+): ?(.*)$', line)
        if m: lhs = m.group(2); rules[int(m.group(1))] = (lhs, m.group(3).split()); continue
        m = re.match(r'\s*(\d+)\s+\| ?(.*)$', line)
        if m: rules[int(m.group(1))] = (lhs, m.group(2).split())
    def rule_of(lhs_, rhs): 
        for n, (l, r_) in rules.items():
            if l == lhs_ and [x for x in r_ if not x.startswith('$@') and x != '%empty' and x != 'ε'] == rhs: return n + 1   # the tables number rules from 1 (index 0 is unused), the report from 0
        return None

    # ---- concrete ACTION / GOTO (python), used to validate the SMT definitions and to collect samples
    def action(s, t):
        n = T['yypact'][s]
        if n != PNINF:
            n += t
            if 0 <= n <= YYLAST and T['yycheck'][n] == t:
                a = T['yytable'][n]
                if a > 0: return ('shift', a)
                if a == 0 or a == TNINF: return ('error', 0)
                return ('reduce', -a)
        d = T['yydefact'][s]
        return ('reduce', d) if d else ('error', 0)
    def goto(s, nt):
        i = T['yypgoto'][nt - YYNTOKENS] + s
        if 0 <= i <= YYLAST and T['yycheck'][i] == s: return T['yytable'][i]
        return T['yydefgoto'][nt - YYNTOKENS]

    # ---- SMT encoding: the automaton state q, the operator indices and the look-ahead are SMT variables; the table functions ACTION and GOTO are
    # given to the solver as finite maps (If-chains) over the states that can occur in the configuration of the lemma, computed from the real tables.
    def fmap(var, mapping, default=-999999):
        e = z3.IntVal(default)
        for k, v in mapping.items(): e = z3.If(var == k, v if z3.is_expr(v) else z3.IntVal(v), e)
        return e
    def enc(a): return a[1] if a[0] == 'shift' else -a[1] if a[0] == 'reduce' else 0   # >0 shift to state, <0 reduce by rule, 0 error
    res = {'name': 'lrsmt', 'obligations': 0, 'discharged': 0, 'violations': [], 'samples': [], 'lemmas': [], 'distinct': 0,
           'tables': {'states': nstates, 'rules': len(T['yyr1']), 'YYLAST': YYLAST, 'tokens': YYNTOKENS}, 'solver': 'z3 ' + z3.get_version_string()}
    solver_s = 0.0
    def prove(name, constraints, negated_claim, decode, note, domain_size):
        nonlocal solver_s
        s = z3.Solver(); s.set('timeout', 120000 if tier == 'quick' else 900000)
        s.add(*constraints)
        t0 = time.time(); wit = s.check()      # vacuity witness: the configuration itself must be satisfiable
        s.push(); s.add(negated_claim); r = s.check(); solver_s += time.time() - t0
        res['obligations'] += 1
        entry = {'lemma': name, 'note': note, 'result': str(r), 'configuration_satisfiable': str(wit), 'symbolic_domain': domain_size}
        if wit != z3.sat: entry['result'] = 'vacuous'; res['inconclusive'] = 'lemma %s: configuration unsatisfiable (vacuous)' % name
        elif r == z3.unsat: res['discharged'] += 1
        elif r == z3.sat:
            cex = decode(s.model())
            res['violations'].append({'id': 'lrsmt-' + name, 'kind': 'lemma', 'msg': 'LALR table lemma %s fails: %s' % (name, cex), 'keys': cex})
            entry['counterexample'] = cex
        else: res['inconclusive'] = 'lemma %s: solver answered %s' % (name, r)
        s.pop()
        res['lemmas'].append(entry)

    # ---- operator table (the oracle, from the language reference): smaller level binds tighter; binary operators are left-associative
    BIN = [('T_MULT', 3), ('T_DIV', 3), ('T_MOD', 3), ('T_PLUS', 4), ('T_MINUS', 4), ('T_LSHIFT', 5), ('T_RSHIFT', 5), ('T_MIN', 6), ('T_MAX', 6), ('T_LT', 7), ('T_LEQ', 7), ('T_GEQ', 7), ('T_GT', 7),
           ('T_EQ', 8), ('T_NEQ', 8), ('&', 9), ('T_XOR', 10), ('T_OR', 11), ('T_BOOL_AND', 12), ('T_KW_AND', 12), ('T_BOOL_OR', 13), ('T_KW_OR', 13), ('T_KW_XOR', 13), ('T_KW_IMPLY', 13)]
    ASG = ['T_ASSIGNMENT', 'T_ASSPLUS', 'T_ASSMINUS', 'T_ASSMULT', 'T_ASSDIV', 'T_ASSMOD', 'T_ASSAND', 'T_ASSOR', 'T_ASSLSHIFT', 'T_ASSRSHIFT', 'T_ASSXOR']
    EXPR, ASSIGNOP, UNARYOP = sym['Expression'], sym['AssignOp'], sym['UnaryOp']
    binsym = [S(t) for t, _ in BIN]; binlvl = [l for _, l in BIN]
    binrule = [rule_of('Expression', ['Expression', (t if t in tok else "'%s'" % t), 'Expression']) for t, _ in BIN]
    if any(r_ is None for r_ in binrule):
        res['inconclusive'] = 'could not identify the binary operator productions in the bison report'; json.dump(res, open(out, 'w')); return 0
    nb = len(BIN)
    q, i1, i2, j = z3.Ints('q i1 i2 j')
    pick = lambda i, lst: fmap(i, dict(enumerate(lst)))

    # L1: after "... Expression op1 Expression" (q saw the left operand, q1 = shift(q, op1), q2 = GOTO(q1, Expression)) the action on look-ahead op2 is
    #     reduce by op1's production iff op1 binds at least as tightly (left associativity), otherwise shift; never an error.
    Q = [s_ for s_ in range(nstates) if any(action(s_, t_)[0] == 'shift' for t_ in binsym)]             # every state in which a left operand is complete
    shift1 = {(s_, k): action(s_, binsym[k])[1] for s_ in Q for k in range(nb) if action(s_, binsym[k])[0] == 'shift'}
    Q2 = {}
    for (s_, k), q1c in shift1.items():
        q2c = goto(q1c, EXPR)
        # the right operand is complete in q2c if op1's production can be reduced there
        if any(action(q2c, t_) == ('reduce', binrule[k]) for t_ in range(YYNTOKENS)): Q2[(s_, k)] = q2c
    q2 = z3.IntVal(-1)
    for (s_, k), v in Q2.items(): q2 = z3.If(z3.And(q == s_, i1 == k), v, q2)
    act2 = z3.IntVal(-999999)
    for q2c in sorted(set(Q2.values())):
        act2 = z3.If(q2 == q2c, fmap(i2, {k2: enc(action(q2c, binsym[k2])) for k2 in range(nb)}), act2)
    cfg = [i1 >= 0, i1 < nb, i2 >= 0, i2 < nb, q2 >= 0]
    dec = lambda m: {'state': m.eval(q, True).as_long(), 'op1': BIN[m.eval(i1, True).as_long()][0], 'op2': BIN[m.eval(i2, True).as_long()][0]}
    prove('binary-precedence-and-left-associativity', cfg, z3.Not(z3.If(pick(i1, binlvl) <= pick(i2, binlvl), act2 == -pick(i1, binrule), act2 > 0)), dec,
          'for every state in which a left operand is complete (%d states, %d (state,op1) configurations) and all 24x24 binary operator tokens incl. keyword aliases: the action after "Expression op1 Expression" on look-ahead op2 is reduce(op1) iff level(op1) <= level(op2), else shift' % (len(Q), len(Q2)), len(Q2) * nb)
    # L2: a keyword alias is treated exactly like its symbolic form in every state of the automaton
    kind = lambda a: 1 if a[0] == 'shift' else 2 if a[0] == 'reduce' else 0
    for kw, symb in [('T_KW_AND', 'T_BOOL_AND'), ('T_KW_OR', 'T_BOOL_OR')]:
        ka = fmap(q, {s_: kind(action(s_, S(kw))) * 100000 + (action(s_, S(kw))[1] if action(s_, S(kw))[0] == 'reduce' else 0) for s_ in range(nstates)})
        kb = fmap(q, {s_: kind(action(s_, S(symb))) * 100000 + (action(s_, S(symb))[1] if action(s_, S(symb))[0] == 'reduce' else 0) for s_ in range(nstates)})
        prove('alias-%s' % kw, [q >= 0, q < nstates], ka != kb, lambda m: {'state': m.eval(q, True).as_long()},
              'for all %d states: %s is shifted / reduced (same rule) / an error exactly where %s is' % (nstates, kw, symb), nstates)
    # "not" is an alias of the prefix operator "!" ("!" is also the output-synchronisation suffix, which "not" is not): wherever an operand may start
    # (T_NAT is shifted) both are shifted, and "not" is never accepted where "!" is an error
    r_ex, r_not = rule_of('UnaryOp', ['T_EXCLAM']), rule_of('UnaryOp', ['T_KW_NOT'])
    def prefix(s_, t_, r_): a_ = action(s_, S(t_)); return 1 if a_[0] == 'shift' and T['yydefact'][a_[1]] == r_ else 0
    pe = fmap(q, {s_: prefix(s_, 'T_EXCLAM', r_ex) for s_ in range(nstates)}); pn = fmap(q, {s_: prefix(s_, 'T_KW_NOT', r_not) for s_ in range(nstates)})
    kn = fmap(q, {s_: kind(action(s_, S('T_KW_NOT'))) for s_ in range(nstates)})
    prove('alias-T_KW_NOT', [q >= 0, q < nstates], pe != pn, lambda m: {'state': m.eval(q, True).as_long()},
          'for all %d states: "not" is shifted as a prefix operator exactly where "!" is (default reductions delay error detection, so nothing is claimed about the other states)' % nstates, nstates)
    # L3: unary operators bind tighter than every binary operator: with a completed "UnaryOp Expression" every binary look-ahead reduces it
    ru = rule_of('Expression', ['UnaryOp', 'Expression'])
    QU = {}
    for s_ in range(nstates):
        qu = goto(s_, UNARYOP)
        if qu <= 0: continue
        qe = goto(qu, EXPR)
        if any(action(qe, t_) == ('reduce', ru) for t_ in range(YYNTOKENS)): QU[s_] = qe
    actu = z3.IntVal(-999999)
    for s_, qe in QU.items(): actu = z3.If(q == s_, fmap(i2, {k2: enc(action(qe, binsym[k2])) for k2 in range(nb)}), actu)
    prove('unary-binds-tighter', [i2 >= 0, i2 < nb, z3.Or([q == s_ for s_ in QU])], actu != -ru, lambda m: {'state': m.eval(q, True).as_long(), 'op2': BIN[m.eval(i2, True).as_long()][0]},
          'for every state followed by a completed "UnaryOp Expression" (%d states): each of the 24 binary operators as look-ahead reduces the unary production' % len(QU), len(QU) * nb)
    # L4: assignment is right-associative and binds looser than binary operators and ?: - with a completed "Expression AssignOp Expression" they are all shifted
    ra = rule_of('Assignment', ['Expression', 'AssignOp', 'Expression'])
    looks = binsym + [S(a_) for a_ in ASG] + [S('?')]
    QA = {}
    for s_ in range(nstates):
        qa = goto(s_, ASSIGNOP)
        if qa <= 0: continue
        qb = goto(qa, EXPR)
        if any(action(qb, t_) == ('reduce', ra) for t_ in range(YYNTOKENS)): QA[s_] = qb
    acta = z3.IntVal(-999999)
    for s_, qb in QA.items(): acta = z3.If(q == s_, fmap(j, {k2: enc(action(qb, looks[k2])) for k2 in range(len(looks))}), acta)
    prove('assignment-right-associative-and-loosest', [j >= 0, j < len(looks), z3.Or([q == s_ for s_ in QA])], acta <= 0, lambda m: {'state': m.eval(q, True).as_long(), 'lookahead': m.eval(j, True).as_long()},
          'for every state followed by a completed "Expression AssignOp Expression" (%d states): the 24 binary operators, ? and the 11 assignment operators are shifted' % len(QA), len(QA) * len(looks))
    # L5: inline-if: with a completed else-branch, binary operators and ? are shifted (right-associative, looser than every binary operator)
    rq = rule_of('Expression', ['Expression', "'?'", 'Expression', "':'", 'Expression'])
    looks2 = binsym + [S('?')] + [S(a_) for a_ in ASG]
    QC = {}
    for s_ in range(nstates):
        a_ = action(s_, S(':'))
        if a_[0] != 'shift': continue
        qd = goto(a_[1], EXPR)
        if any(action(qd, t_) == ('reduce', rq) for t_ in range(YYNTOKENS)): QC[s_] = qd
    actc = z3.IntVal(-999999)
    for s_, qd in QC.items(): actc = z3.If(q == s_, fmap(j, {k2: enc(action(qd, looks2[k2])) for k2 in range(len(looks2))}), actc)
    prove('inline-if-else-branch-extends-right', [j >= 0, j < len(looks2), z3.Or([q == s_ for s_ in QC])], actc <= 0, lambda m: {'state': m.eval(q, True).as_long(), 'lookahead': m.eval(j, True).as_long()},
          'for every state with a completed else-branch of ?: (%d states): the 24 binary operators, ? and the 11 assignment operators are shifted' % len(QC), len(QC) * len(looks2))
    # L6: soft keywords are identifiers wherever an identifier is: in every state where T_ID is shifted and reduced to NonTypeId, the keyword is not a syntax error
    rid = rule_of('NonTypeId', ['T_ID'])
    QI = [s_ for s_ in range(nstates) if action(s_, S('T_ID'))[0] == 'shift' and T['yydefact'][action(s_, S('T_ID'))[1]] == rid]
    for kw in ["'A'", "'U'", "'W'", "'R'", "'E'", "'M'", 'T_SUP', 'T_INF', 'T_BOUNDS', 'T_SIMULATION']:
        nm = kw.strip("'")
        rk = rule_of('NonTypeId', [kw])
        res_name = 'soft-keyword-%s' % nm
        if rk is None:
            res['obligations'] += 1; res['violations'].append({'id': 'lrsmt-' + res_name, 'kind': 'lemma', 'msg': 'no production NonTypeId: %s' % kw, 'keys': {'keyword': nm}})
            res['lemmas'].append({'lemma': res_name, 'result': 'sat', 'note': 'production missing'}); continue
        ok = fmap(q, {s_: (1 if action(s_, S(nm))[0] != 'error' else 0) for s_ in QI})
        prove(res_name, [z3.Or([q == s_ for s_ in QI])], ok != 1, lambda m: {'state': m.eval(q, True).as_long()},
              'for every state in which an identifier may start a NonTypeId (%d states): the token %s is not a syntax error' % (len(QI), nm), len(QI))
    # ---- validation of the table reading: the driver of the real generated parser must take the decisions the python ACTION / GOTO predict;
    # this is checked per run by llsx executing the real yacc.c driver on "a op1 b op2 c" for all 24x24 pairs (C02 harness_binary_pairs).
    res['encoding_validation'] = 'ACTION/GOTO re-implemented from the yacc.c skeleton; cross-checked per run by the llsx C02 harnesses that execute the real driver'
    res['distinct'] = len(res['lemmas'])
    res['solver_s'] = round(solver_s, 2)
    res['wall_s'] = round(time.time() - t_start, 2)
    res['samples'] = ['lrsmt %s: %s' % (l['lemma'], l['result']) for l in res['lemmas'][:4]]
    json.dump(res, open(out, 'w'), indent=1)
    return 0

if __name__ == '__main__':
    sys.exit(main())
