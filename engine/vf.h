/* harness API: implemented natively by the executor (symbolic) and by vf_replay.c (concrete replay) */
#ifndef VF_H
#define VF_H
#ifdef __cplusplus
extern "C" {
#endif
int vf_int(const char* name);
unsigned vf_uint(const char* name);
long vf_long(const char* name);
signed char vf_i8(const char* name);
short vf_i16(const char* name);
double vf_double(const char* name);
int vf_range(const char* name, int lo, int hi); /* lo<=x<=hi */
void vf_assume(int cond);
void vf_assert(int cond, const char* id);
void vf_reach(const char* id);
#ifdef __cplusplus
}
#endif
#endif
