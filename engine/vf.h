/* harness API: implemented symbolically by the executor (llsx) and concretely by vf_native.cpp (replay / differential) */
#ifndef VF_H
#define VF_H
#ifdef __cplusplus
extern "C" {
#endif
/* data inputs (wide domains, not part of a finding's key) */
int vf_int(const char* name);
unsigned vf_uint(const char* name);
long vf_long(const char* name);
signed char vf_i8(const char* name);
unsigned char vf_u8(const char* name);
short vf_i16(const char* name);
double vf_double(const char* name);
/* key inputs (small domains; a finding is identified by their values) */
int vf_range(const char* name, int lo, int hi); /* lo<=x<=hi */
int vf_pick(const char* name, int n);           /* 0<=x<n */
int vf_bool(const char* name);
void vf_assume(int cond);
void vf_assert(int cond, const char* id);
void vf_reach(const char* id);
void vf_note(const char* text);                 /* observation record (compared between engine and native run) */
void vf_notei(const char* text, long v);
void vf_budget(long instructions);              /* from here on the path may execute at most this many IR instructions */
int vf_is_symbolic(void);
long vf_concretize(long v);
#ifdef __cplusplus
}
#endif
#endif
