// minimal iostream replacement used only when lowering to IR
#ifndef VFSTREAM_IMPL_H
#define VFSTREAM_IMPL_H
#include <iosfwd>
#include <bits/ios_base.h>
#include <string>
#include <string_view>
#include <cstdio>
#include <cstdlib>
namespace std {
template <typename C, typename T> class basic_ios { public: bool fail() const { return _fail; } explicit operator bool() const { return !_fail; } bool operator!() const { return _fail; } protected: bool _fail = false; };
template <typename C, typename T>
class basic_ostream : virtual public basic_ios<C, T>
{
public:
    string* _buf = nullptr;
    basic_ostream& write(const char* s, long n) { if (_buf) _buf->append(s, n); return *this; }
    basic_ostream& put(char c) { if (_buf) _buf->push_back(c); return *this; }
    basic_ostream& flush() { return *this; }
    basic_ostream& operator<<(int v) { char b[24]; int n = snprintf(b, sizeof b, "%d", v); return write(b, n); }
    basic_ostream& operator<<(unsigned v) { char b[24]; int n = snprintf(b, sizeof b, "%u", v); return write(b, n); }
    basic_ostream& operator<<(long v) { char b[24]; int n = snprintf(b, sizeof b, "%ld", v); return write(b, n); }
    basic_ostream& operator<<(unsigned long v) { char b[24]; int n = snprintf(b, sizeof b, "%lu", v); return write(b, n); }
    basic_ostream& operator<<(double v) { char b[40]; int n = snprintf(b, sizeof b, "%g", v); return write(b, n); }
    basic_ostream& operator<<(bool v) { return put(v ? '1' : '0'); }
    basic_ostream& operator<<(const void* p) { return write("0xptr", 5); }
    basic_ostream& operator<<(basic_ostream& (*f)(basic_ostream&)) { return f(*this); }
};
inline ostream& operator<<(ostream& o, char c) { return o.put(c); }
inline ostream& operator<<(ostream& o, const char* s) { return o.write(s, (long)__builtin_strlen(s)); }
inline ostream& operator<<(ostream& o, const string& s) { return o.write(s.data(), (long)s.size()); }
inline ostream& operator<<(ostream& o, string_view s) { return o.write(s.data(), (long)s.size()); }
template <typename C, typename T> inline basic_ostream<C, T>& endl(basic_ostream<C, T>& o) { return o.put('\n'); }
template <typename C, typename T>
class basic_istream : virtual public basic_ios<C, T>
{
public:
    string _src; size_t _pos = 0;
    int peek() { return _pos < _src.size() ? (unsigned char)_src[_pos] : -1; }
    int get() { return _pos < _src.size() ? (unsigned char)_src[_pos++] : (this->_fail = true, -1); }
    void skipws() { while (_pos < _src.size() && (_src[_pos] == ' ' || _src[_pos] == '\t' || _src[_pos] == '\n' || _src[_pos] == '\r')) _pos++; }
    basic_istream& operator>>(double& d) { skipws(); const char* b = _src.c_str() + _pos; char* e; d = strtod(b, &e); if (e == b) this->_fail = true; _pos += e - b; return *this; }
    basic_istream& operator>>(string& s) { skipws(); s.clear(); while (_pos < _src.size() && !(_src[_pos] == ' ' || _src[_pos] == '\t' || _src[_pos] == '\n')) s.push_back(_src[_pos++]); if (s.empty()) this->_fail = true; return *this; }
};
inline istream& getline(istream& is, string& s, char delim) { s.clear(); if (is._pos >= is._src.size()) { is.get(); return is; } while (is._pos < is._src.size() && is._src[is._pos] != delim) s.push_back(is._src[is._pos++]); if (is._pos < is._src.size()) is._pos++; return is; }
}
#endif
