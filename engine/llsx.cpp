// llsx: a small forking symbolic executor for LLVM-14 IR with Z3 (prototype).
// Values are concrete where possible; symbolic scalars are Z3 bit-vectors.
// Pointers are concrete object addresses (+ possibly symbolic offset).
#include <llvm/IR/LLVMContext.h>
#include <llvm/IR/Module.h>
#include <llvm/IR/Instructions.h>
#include <llvm/IR/IntrinsicInst.h>
#include <llvm/IR/Constants.h>
#include <llvm/IR/DataLayout.h>
#include <llvm/IR/GetElementPtrTypeIterator.h>
#include <llvm/IR/Operator.h>
#include <llvm/IRReader/IRReader.h>
#include <llvm/Support/SourceMgr.h>
#include <llvm/Support/raw_ostream.h>
#include <z3++.h>
#include <algorithm>
#include <fstream>
#include <sys/wait.h>
#include <unistd.h>
#include <chrono>
#include <cstring>
#include <cerrno>
#include <cctype>
#include <cmath>
#include <strings.h>
#include <functional>
#include <iostream>
#include <map>
#include <memory>
#include <set>
#include <sstream>
#include <unordered_map>
#include <vector>

using namespace llvm;
static z3::context ZC;

struct EngineError : std::runtime_error { using std::runtime_error::runtime_error; };

// ---------------------------------------------------------------- values
struct Val {
    unsigned bits = 0;  // 0 = void / aggregate
    bool sym = false;
    uint64_t c = 0;
    z3::expr e{ZC};
    std::shared_ptr<std::vector<Val>> agg;
    Val() {}
    Val(unsigned b, uint64_t v) : bits(b), c(mask(b, v)) {}
    Val(unsigned b, z3::expr x) : bits(b), sym(true), e(x) {}
    static uint64_t mask(unsigned b, uint64_t v) { return b >= 64 ? v : (v & ((1ULL << b) - 1)); }
    z3::expr ex() const { return sym ? e : ZC.bv_val((uint64_t)c, bits); }
    int64_t sext() const { return bits >= 64 ? (int64_t)c : (int64_t)(c << (64 - bits)) >> (64 - bits); }
    bool isAgg() const { return (bool)agg; }
};
static Val mkSym(unsigned bits, z3::expr e)
{
    e = e.simplify();
    if (e.is_numeral()) { uint64_t v = 0; if (bits <= 64 && e.is_numeral_u64(v)) return Val(bits, v); }
    return Val(bits, e);
}
static z3::expr toBool(const Val& v) { return v.sym ? (v.e == ZC.bv_val(1, 1)) : ZC.bool_val(v.c & 1); }
static Val fromBool(z3::expr b) { return mkSym(1, z3::ite(b, ZC.bv_val(1, 1), ZC.bv_val(0, 1))); }

// ---------------------------------------------------------------- memory
struct SymByte { std::shared_ptr<Val> v; unsigned idx; };  // byte idx (little endian) of symbolic value v
struct MemObj {
    uint64_t base = 0, size = 0;
    std::vector<uint8_t> bytes;
    std::map<uint64_t, SymByte> symb;  // offset -> symbolic byte
    bool readonly = false, freed = false, heap = false, stack = false;
    std::string name;
};
using ObjP = std::shared_ptr<MemObj>;

struct Frame {
    Function* fn = nullptr;
    BasicBlock* bb = nullptr;
    BasicBlock* prev = nullptr;
    BasicBlock::iterator it;
    std::vector<Val> regs;
    std::vector<uint64_t> allocas;
    CallBase* callsite = nullptr;  // in caller
    std::unordered_map<const Value*, unsigned>* slots = nullptr;
};

struct State {
    std::vector<Frame> stack;
    std::map<uint64_t, ObjP> mem;  // base -> obj
    uint64_t nextAddr = 0x10000000;
    std::map<uint64_t, std::vector<uint64_t>> stackFree;   // addresses of dead stack objects, by size
    std::vector<z3::expr> pc;
    std::vector<std::pair<std::string, z3::expr>> inputs;
    std::vector<bool> inputKey;
    std::set<std::string> reached;
    std::shared_ptr<z3::model> lastModel;
    std::string notes;
    int64_t budget = -1;  // remaining instructions allowed by vf_budget (-1: none)
    std::vector<std::pair<z3::expr, z3::expr>> fixed;
    std::set<unsigned> fixedIdx;
    struct Exc { uint64_t obj = 0, tinfo = 0, dtor = 0; };
    std::vector<Exc> caught;  // stack of caught exceptions
    Exc inflight; bool unwinding = false;
    uint64_t steps = 0;
    int id = 0;
};

struct Violation {
    std::string kind, id, msg, stack;
    std::vector<std::pair<std::string, std::string>> keys, model;
    bool truncated = false;
};
struct Stats {
    uint64_t ctor_insts = 0, symaddr = 0, paths = 0, insts = 0, queries = 0, asserts_checked = 0, violations = 0, errors = 0, forks = 0, cache_hits = 0, max_path_insts = 0, external_queries = 0, external_unsat = 0;
    double solver_s = 0;
    std::set<std::string> fns, reach, keysigs;
    std::map<std::string, uint64_t> assert_ids, uncaught, ends;
    std::vector<std::string> samples;
};
static std::string jesc(const std::string& s)
{
    std::string r;
    for (unsigned char c : s) {
        if (c == '"' || c == '\\') { r.push_back('\\'); r.push_back(c); }
        else if (c < 0x20 || c >= 0x7f) { char b[8]; snprintf(b, sizeof b, "\\u%04x", c); r += b; }
        else r.push_back(c);
    }
    return r;
}

// ---------------------------------------------------------------- executor
class Exec {
public:
    Module& M;
    const DataLayout& DL;
    Stats st;
    std::unordered_map<const Function*, std::unordered_map<const Value*, unsigned>> slotmap;
    std::set<const Function*> loggedFns;
    std::map<const GlobalValue*, uint64_t> gaddr;
    std::map<uint64_t, Function*> faddr;
    std::vector<State> work;
    std::vector<std::string> errors;
    uint64_t maxPaths = 100000, maxSteps = 50000000;
    bool verbose = false, forkOnAddr = true;
    int nextState = 1;
    using Ext = std::function<bool(State&, CallBase&, std::vector<Val>&, Val&)>;  // returns false if path ends
    std::map<std::string, Ext> ext;
    std::map<std::string, std::string> replace;

    Exec(Module& m) : M(m), DL(m.getDataLayout()) { initExt(); }

    // ---- solver
    unsigned timeoutMs = 10000;
    std::string externalCmd;
    std::map<std::string, uint64_t> concreteInputs;  // --inputs: concrete replay inside the engine
    bool concreteMode = false;
    std::vector<Violation> viols;
    z3::check_result check(State& s, const z3::expr* extra, z3::model* model = nullptr)
    {
        auto t0 = std::chrono::steady_clock::now();
        z3::solver sol(ZC);
        z3::params p(ZC); p.set("timeout", timeoutMs); sol.set(p);
        for (auto& c : s.pc) sol.add(c);
        if (extra) sol.add(*extra);
        auto r = sol.check();
        if (r == z3::unknown && !externalCmd.empty()) {
            // second opinion: export the query as SMT-LIB2 and ask an external solver (only an `unsat` answer is used)
            std::string f = jsonPath + ".q" + std::to_string(getpid()) + ".smt2";
            { std::ofstream o(f); o << "(set-logic ALL)\n" << sol.to_smt2(); }
            std::string cmd = externalCmd + " " + f + " 2>&1";
            st.external_queries++;
            if (FILE* p = popen(cmd.c_str(), "r")) {
                char buf[256]; std::string out;
                while (fgets(buf, sizeof buf, p)) out += buf;
                pclose(p);
                if (out.find("(error") == std::string::npos && out.compare(0, 5, "unsat") == 0) { r = z3::unsat; st.external_unsat++; }
            }
            unlink(f.c_str());
        }
        if (r == z3::sat) {
            auto m = std::make_shared<z3::model>(sol.get_model());
            if (model) *model = *m;
            if (!extra || true) s.lastModel = m;  // satisfies pc (and extra); valid for pc
        }
        st.queries++;
        st.solver_s += std::chrono::duration<double>(std::chrono::steady_clock::now() - t0).count();
        return r;
    }
    // does the cached model of pc make c true?
    bool modelSays(State& s, const z3::expr& c)
    {
        if (!s.lastModel) return false;
        try { z3::expr v = s.lastModel->eval(c, true); if (v.is_true()) { st.cache_hits++; return true; } } catch (z3::exception&) {}
        return false;
    }
    bool maybe(State& s, z3::expr c)
    {
        c = c.simplify();
        if (c.is_true()) return true;
        if (c.is_false()) return false;
        if (modelSays(s, c)) return true;
        auto r = check(s, &c);
        if (r == z3::unknown) throw EngineError("solver returned unknown");
        return r == z3::sat;
    }
    void addPc(State& s, const z3::expr& c)
    {
        // keep the cached model only if it still satisfies the new constraint
        if (s.lastModel) { bool ok = false; try { ok = s.lastModel->eval(c, true).is_true(); } catch (z3::exception&) {} if (!ok) s.lastModel.reset(); }
        s.pc.push_back(c);
    }

    // ---- violation reporting: enumerate all distinct assignments of the key inputs (cap) that reach the failure
    std::string stackStr(State& s)
    {
        std::string r;
        for (int i = (int)s.stack.size() - 1, k = 0; i >= 0 && k < 8; i--, k++) { if (k) r += " < "; r += s.stack[i].fn->getName().str(); }
        return r;
    }
    void reportViolation(State& s, const std::string& kind, const std::string& id, const std::string& msg, const z3::expr* bad)
    {
        const unsigned cap = 64;
        z3::solver sol(ZC);
        z3::params p(ZC); p.set("timeout", timeoutMs); sol.set(p);
        for (auto& c : s.pc) sol.add(c);
        if (bad) sol.add(*bad);
        unsigned n = 0;
        std::string stk = stackStr(s);
        for (;;) {
            st.queries++;
            auto r = sol.check();
            if (r != z3::sat) break;
            z3::model m = sol.get_model();
            Violation v; v.kind = kind; v.id = id; v.msg = msg; v.stack = stk;
            z3::expr block = ZC.bool_val(false);
            bool anyKey = false;
            for (unsigned i = 0; i < s.inputs.size(); i++) {
                z3::expr val = m.eval(s.inputs[i].second, true);
                // pinned inputs were substituted away: use the pinned value
                for (auto& fx : s.fixed) if (z3::eq(fx.first, s.inputs[i].second)) val = fx.second;
                std::string vs;
                { uint64_t u = 0; if (val.is_numeral_u64(u)) vs = std::to_string(u); else { std::ostringstream os; os << val; vs = os.str(); } }
                v.model.push_back({s.inputs[i].first, vs});
                if (s.inputKey[i]) { v.keys.push_back({s.inputs[i].first, vs}); block = block || (s.inputs[i].second != val); anyKey = true; }
            }
            n++;
            if (n >= cap) v.truncated = true;
            viols.push_back(v); st.violations++;
            if (!anyKey || n >= cap) break;
            sol.add(block);
        }
        if (n == 0) { Violation v; v.kind = kind; v.id = id; v.msg = msg + " (no model: solver gave up)"; v.stack = stk; viols.push_back(v); st.violations++; }
    }

    // ---- memory
    // Stack objects die with their frame; their addresses are handed out again (last freed first, per size), as a real stack does: the same call made
    // twice gets the same addresses, so code that keeps a stale stack address across calls (and compares it) behaves as in the native build.
    void releaseAllocas(State& s, Frame& f)
    {
        for (auto it = f.allocas.rbegin(); it != f.allocas.rend(); ++it) {
            auto m = s.mem.find(*it);
            if (m == s.mem.end()) continue;
            s.stackFree[m->second->size].push_back(*it);
            s.mem.erase(m);
        }
    }
    ObjP alloc(State& s, uint64_t size, const std::string& name, bool heap = false, bool stack = false)
    {
        auto o = std::make_shared<MemObj>();
        if (stack) {
            auto fr = s.stackFree.find(size);
            if (fr != s.stackFree.end() && !fr->second.empty()) {
                o->base = fr->second.back(); fr->second.pop_back();
                o->size = size; o->bytes.assign(size, 0); o->name = name; o->heap = heap; o->stack = stack;
                s.mem[o->base] = o;
                return o;
            }
        }
        o->base = s.nextAddr;
        o->size = size;
        o->bytes.assign(size, 0);
        o->name = name; o->heap = heap; o->stack = stack;
        s.nextAddr += ((size + 15) / 16 + 2) * 16;
        s.mem[o->base] = o;
        return o;
    }
    ObjP findObj(State& s, uint64_t addr, uint64_t n)
    {
        auto it = s.mem.upper_bound(addr);
        if (it == s.mem.begin()) return nullptr;
        --it;
        auto& o = it->second;
        if (addr < o->base || addr + n > o->base + o->size) return nullptr;
        return o;
    }
    MemObj& writable(State& s, ObjP& o)
    {
        if (o.use_count() > 2) {  // shared with another state (map + local copy = 2)
            auto n = std::make_shared<MemObj>(*o);
            s.mem[n->base] = n;
            o = n;
        }
        return *o;
    }
    struct MemFault : std::runtime_error { using std::runtime_error::runtime_error; };

    // bulk copy / fill: when source and destination ranges lie in live objects and hold no symbolic bytes, work on the byte vectors directly
    bool rangeHasSym(const MemObj& o, uint64_t off, uint64_t n) { if (o.symb.empty()) return false; auto it = o.symb.lower_bound(off); return it != o.symb.end() && it->first < off + n; }
    void bulkCopy(State& s, uint64_t d, uint64_t sr, uint64_t n)
    {
        if (!n) return;
        ObjP so = findObj(s, sr, n), dobj = findObj(s, d, n);
        if (so && dobj && !so->freed && !dobj->freed && !dobj->readonly && !rangeHasSym(*so, sr - so->base, n)) {
            std::vector<uint8_t> tmp(so->bytes.begin() + (sr - so->base), so->bytes.begin() + (sr - so->base) + n);
            MemObj& w = writable(s, dobj);
            uint64_t off = d - w.base;
            if (!w.symb.empty()) w.symb.erase(w.symb.lower_bound(off), w.symb.lower_bound(off + n));
            std::copy(tmp.begin(), tmp.end(), w.bytes.begin() + off);
            return;
        }
        std::vector<Val> tmp;
        for (uint64_t i = 0; i < n; i++) tmp.push_back(load(s, Val(64, sr + i), 8));
        for (uint64_t i = 0; i < n; i++) store(s, Val(64, d + i), tmp[i]);
    }
    void bulkFill(State& s, uint64_t d, const Val& v, uint64_t n)
    {
        if (!n) return;
        ObjP dobj = findObj(s, d, n);
        if (dobj && !v.sym && !dobj->freed && !dobj->readonly) {
            MemObj& w = writable(s, dobj);
            uint64_t off = d - w.base;
            if (!w.symb.empty()) w.symb.erase(w.symb.lower_bound(off), w.symb.lower_bound(off + n));
            std::fill(w.bytes.begin() + off, w.bytes.begin() + off + n, (uint8_t)(v.c & 0xff));
            return;
        }
        for (uint64_t i = 0; i < n; i++) store(s, Val(64, d + i), v);
    }

    uint64_t concretePtr(State& s, const Val& p, const char* what)
    {
        if (!p.sym) return p.c;
        throw EngineError(std::string("symbolic pointer in ") + what + " (not supported in prototype)");
    }
    // enumerate feasible values of a symbolic pointer; with nbytes>0 every value that does not address nbytes of a live
    // object is reported as a fault (with a model) and excluded
    std::vector<uint64_t> feasibleAddrs(State& s, const Val& p, unsigned nbytes = 0, unsigned cap = 2048)
    {
        std::vector<uint64_t> r;
        z3::solver sol(ZC);
        z3::params pr(ZC); pr.set("timeout", timeoutMs); sol.set(pr);
        for (auto& c : s.pc) sol.add(c);
        auto t0 = std::chrono::steady_clock::now();
        unsigned faults = 0;
        while (true) {
            st.queries++;
            auto res = sol.check();
            if (res == z3::unknown) throw EngineError("solver unknown (addr enumeration)");
            if (res != z3::sat) break;
            z3::model m = sol.get_model();
            uint64_t v = m.eval(p.e, true).get_numeral_uint64();
            ObjP o = nbytes ? findObj(s, v, nbytes) : nullptr;
            if (nbytes && (!o || o->freed)) {
                State t = s; z3::expr q = p.e == ZC.bv_val(v, 64); addPc(t, q);
                reportViolation(t, "fault", "mem", "invalid access of " + std::to_string(nbytes) + " bytes through symbolic address " + std::to_string(v), nullptr);
                if (++faults >= 3) {
                    // stop enumerating wild addresses: keep only addresses inside the objects seen so far
                    z3::expr in = ZC.bool_val(false);
                    std::set<uint64_t> bases;
                    for (auto a : r) { ObjP ob = findObj(s, a, nbytes); if (ob && bases.insert(ob->base).second) in = in || (z3::uge(p.e, ZC.bv_val(ob->base, 64)) && z3::ule(p.e, ZC.bv_val(ob->base + ob->size - nbytes, 64))); }
                    sol.add(in);
                }
            } else {
                r.push_back(v);
                if (nbytes && r.size() == 1) {
                    // quick out-of-bounds test relative to the first object
                    sol.push();
                    sol.add(!(z3::uge(p.e, ZC.bv_val(o->base, 64)) && z3::ule(p.e, ZC.bv_val(o->base + o->size - nbytes, 64))));
                    st.queries++;
                    if (sol.check() == z3::sat) {
                        z3::model m2 = sol.get_model();
                        uint64_t v2 = m2.eval(p.e, true).get_numeral_uint64();
                        ObjP o2 = findObj(s, v2, nbytes);
                        if (!o2 || o2->freed) {
                            State t = s; z3::expr q = p.e == ZC.bv_val(v2, 64); addPc(t, q);
                            reportViolation(t, "fault", "mem", "out-of-bounds access of " + std::to_string(nbytes) + " bytes: object " + o->name + " size " + std::to_string(o->size) + ", address " + std::to_string((long)(v2 - o->base)) + " relative to it", nullptr);
                            faults = 3;
                            sol.pop();
                            sol.add(z3::uge(p.e, ZC.bv_val(o->base, 64)) && z3::ule(p.e, ZC.bv_val(o->base + o->size - nbytes, 64)));
                            sol.add(p.e != ZC.bv_val(v, 64));
                            continue;
                        }
                    }
                    sol.pop();
                }
            }
            if (r.size() > cap) throw EngineError("too many feasible addresses");
            sol.add(p.e != ZC.bv_val(v, 64));
        }
        st.solver_s += std::chrono::duration<double>(std::chrono::steady_clock::now() - t0).count();
        st.symaddr++;
        return r;
    }
    Val load(State& s, const Val& ptr, unsigned bits)
    {
        if (ptr.sym) {
            auto as = feasibleAddrs(s, ptr, (bits + 7) / 8);
            if (as.empty()) throw EngineError("no feasible address");
            Val r = load(s, Val(64, as[0]), bits);
            for (size_t i = 1; i < as.size(); i++) {
                Val v = load(s, Val(64, as[i]), bits);
                r = mkSym(bits, z3::ite(ptr.e == ZC.bv_val(as[i], 64), v.ex(), r.ex()));
            }
            return r;
        }
        unsigned n = (bits + 7) / 8;
        uint64_t a = concretePtr(s, ptr, "load");
        ObjP o = findObj(s, a, n);
        if (!o) throw MemFault("invalid read of " + std::to_string(n) + " bytes at " + std::to_string(a));
        if (o->freed) throw MemFault("read of freed object " + o->name);
        uint64_t off = a - o->base;
        bool anysym = false;
        if (!o->symb.empty()) {
            auto it = o->symb.lower_bound(off);
            anysym = it != o->symb.end() && it->first < off + n;
        }
        if (!anysym) {
            uint64_t v = 0;
            for (unsigned i = 0; i < n && i < 8; i++) v |= (uint64_t)o->bytes[off + i] << (8 * i);
            if (n > 8) throw EngineError("wide concrete load");
            return Val(bits, v);
        }
        // whole symbolic value stored here?
        auto it0 = o->symb.find(off);
        if (it0 != o->symb.end() && it0->second.idx == 0 && it0->second.v->bits == bits) {
            bool ok = true;
            for (unsigned i = 1; i < n; i++) {
                auto it = o->symb.find(off + i);
                if (it == o->symb.end() || it->second.v != it0->second.v || it->second.idx != i) { ok = false; break; }
            }
            if (ok) return *it0->second.v;
        }
        z3::expr r(ZC);
        for (unsigned i = 0; i < n; i++) {
            z3::expr b(ZC);
            auto it = o->symb.find(off + i);
            if (it == o->symb.end()) b = ZC.bv_val((unsigned)o->bytes[off + i], 8);
            else b = it->second.v->ex().extract(8 * it->second.idx + 7, 8 * it->second.idx);
            r = (i == 0) ? b : z3::concat(b, r);
        }
        if (bits < 8 * n) r = r.extract(bits - 1, 0);
        return mkSym(bits, r);
    }
    void store(State& s, const Val& ptr, const Val& v)
    {
        if (v.isAgg()) throw EngineError("aggregate store");
        if (ptr.sym) {
            auto as = feasibleAddrs(s, ptr, (v.bits + 7) / 8);
            for (auto a : as) {
                Val old = load(s, Val(64, a), v.bits);
                store(s, Val(64, a), mkSym(v.bits, z3::ite(ptr.e == ZC.bv_val(a, 64), v.ex(), old.ex())));
            }
            return;
        }
        unsigned n = (v.bits + 7) / 8;
        uint64_t a = concretePtr(s, ptr, "store");
        ObjP o = findObj(s, a, n);
        if (!o) throw MemFault("invalid write of " + std::to_string(n) + " bytes at " + std::to_string(a));
        if (o->freed) throw MemFault("write to freed object " + o->name);
        if (o->readonly) throw MemFault("write to constant " + o->name);
        MemObj& w = writable(s, o);
        uint64_t off = a - w.base;
        for (unsigned i = 0; i < n; i++) w.symb.erase(off + i);
        if (!v.sym) {
            for (unsigned i = 0; i < n; i++) w.bytes[off + i] = (v.c >> (8 * i)) & 0xff;
        } else {
            auto sv = std::make_shared<Val>(v);
            if (v.bits % 8) { sv = std::make_shared<Val>(mkSym(8 * n, z3::zext(v.e, 8 * n - v.bits))); }
            for (unsigned i = 0; i < n; i++) w.symb[off + i] = SymByte{sv, i};
        }
    }
    std::string readCStr(State& s, uint64_t a)
    {
        std::string r;
        for (;;) {
            Val b = load(s, Val(64, a++), 8);
            if (b.sym) throw EngineError("symbolic byte in C string");
            if (!b.c) break;
            r.push_back((char)b.c);
        }
        return r;
    }

    // ---- constants
    Val constVal(State& s, const Constant* C)
    {
        if (auto* ci = dyn_cast<ConstantInt>(C)) {
            if (ci->getBitWidth() > 64) throw EngineError("wide constant int");
            return Val(ci->getBitWidth(), ci->getZExtValue());
        }
        if (isa<ConstantPointerNull>(C)) return Val(64, 0);
        if (isa<UndefValue>(C)) {
            Type* t = C->getType();
            if (t->isIntegerTy()) return Val(t->getIntegerBitWidth(), 0);
            if (t->isPointerTy()) return Val(64, 0);
            if (t->isDoubleTy()) return Val(64, 0);
            if (t->isStructTy() || t->isArrayTy()) {
                Val v; v.agg = std::make_shared<std::vector<Val>>();
                unsigned n = t->isStructTy() ? t->getStructNumElements() : t->getArrayNumElements();
                for (unsigned i = 0; i < n; i++) {
                    Type* et = t->isStructTy() ? t->getStructElementType(i) : t->getArrayElementType();
                    v.agg->push_back(constVal(s, UndefValue::get(et)));
                }
                return v;
            }
            throw EngineError("undef of unsupported type");
        }
        if (auto* cf = dyn_cast<ConstantFP>(C)) {
            if (C->getType()->isDoubleTy()) return Val(64, cf->getValueAPF().bitcastToAPInt().getZExtValue());
            if (C->getType()->isFloatTy()) return Val(32, cf->getValueAPF().bitcastToAPInt().getZExtValue());
            if (C->getType()->isX86_FP80Ty()) { bool li; APFloat f = cf->getValueAPF(); f.convert(APFloat::IEEEdouble(), APFloat::rmNearestTiesToEven, &li); return Val(64, f.bitcastToAPInt().getZExtValue()); }  // long double is carried as double (only nexttoward's direction argument uses it)
            throw EngineError("fp constant type");
        }
        if (auto* gv = dyn_cast<GlobalValue>(C)) {
            auto it = gaddr.find(gv);
            if (it == gaddr.end()) throw EngineError("unknown global " + gv->getName().str());
            return Val(64, it->second);
        }
        if (auto* ce = dyn_cast<ConstantExpr>(C)) {
            switch (ce->getOpcode()) {
            case Instruction::BitCast: case Instruction::IntToPtr: case Instruction::PtrToInt:
                { Val v = constVal(s, ce->getOperand(0)); v.bits = DL.getTypeSizeInBits(ce->getType()); v.c = Val::mask(v.bits, v.c); return v; }
            case Instruction::GetElementPtr: {
                Val b = constVal(s, ce->getOperand(0));
                APInt off(64, 0);
                if (!cast<GEPOperator>(ce)->accumulateConstantOffset(DL, off)) throw EngineError("non-const gep constexpr");
                return Val(64, b.c + off.getZExtValue());
            }
            case Instruction::Add: return Val(ce->getType()->getIntegerBitWidth(), constVal(s, ce->getOperand(0)).c + constVal(s, ce->getOperand(1)).c);
            case Instruction::Sub: return Val(ce->getType()->getIntegerBitWidth(), constVal(s, ce->getOperand(0)).c - constVal(s, ce->getOperand(1)).c);
            default: throw EngineError(std::string("constexpr opcode ") + ce->getOpcodeName());
            }
        }
        if (isa<ConstantAggregateZero>(C) || isa<ConstantAggregate>(C) || isa<ConstantDataSequential>(C)) {
            Val v; v.agg = std::make_shared<std::vector<Val>>();
            Type* t = C->getType();
            unsigned n = t->isStructTy() ? t->getStructNumElements() : t->getArrayNumElements();
            for (unsigned i = 0; i < n; i++) v.agg->push_back(constVal(s, C->getAggregateElement(i)));
            return v;
        }
        std::string str; raw_string_ostream os(str); C->print(os);
        throw EngineError("constant kind: " + str);
    }
    void writeInit(State& s, uint64_t addr, const Constant* C)
    {
        Type* t = C->getType();
        if (isa<ConstantAggregateZero>(C)) return;
        if (auto* cds = dyn_cast<ConstantDataSequential>(C)) {
            uint64_t es = DL.getTypeAllocSize(cds->getElementType());
            for (unsigned i = 0; i < cds->getNumElements(); i++) writeInit(s, addr + i * es, cds->getElementAsConstant(i));
            return;
        }
        if (auto* ca = dyn_cast<ConstantArray>(C)) {
            uint64_t es = DL.getTypeAllocSize(t->getArrayElementType());
            for (unsigned i = 0; i < ca->getNumOperands(); i++) writeInit(s, addr + i * es, ca->getOperand(i));
            return;
        }
        if (auto* cs = dyn_cast<ConstantStruct>(C)) {
            auto* sl = DL.getStructLayout(cast<StructType>(t));
            for (unsigned i = 0; i < cs->getNumOperands(); i++) writeInit(s, addr + sl->getElementOffset(i), cs->getOperand(i));
            return;
        }
        if (isa<UndefValue>(C) && (t->isStructTy() || t->isArrayTy())) return;
        Val v = constVal(s, C);
        store(s, Val(64, addr), v);
    }
    void initGlobals(State& s)
    {
        uint64_t fa = 0x1000;
        for (auto& F : M) { gaddr[&F] = fa; faddr[fa] = &F; fa += 16; }
        for (auto& G : M.globals()) {
            uint64_t sz = DL.getTypeAllocSize(G.getValueType());
            if (G.isDeclaration() && sz < 64) sz = 64;
            auto o = alloc(s, sz, G.getName().str());
            gaddr[&G] = o->base;
        }
        for (auto& A : M.aliases()) {
            if (auto* gv = dyn_cast<GlobalValue>(A.getAliasee()->stripPointerCasts())) gaddr[&A] = gaddr[gv];
        }
        for (auto& G : M.globals())
            if (G.hasInitializer()) writeInit(s, gaddr[&G], G.getInitializer());
        for (auto& G : M.globals())
            if (G.isConstant() && G.hasInitializer()) s.mem[gaddr[&G]]->readonly = true;
        if (auto* g = M.getNamedGlobal("__libc_single_threaded")) store(s, Val(64, gaddr[g]), Val(8, 1));
        errnoAddr = alloc(s, 4, "errno")->base;
    }

    // ---- frames / operands
    std::unordered_map<const Value*, unsigned>& slotsOf(const Function* fn)
    {
        auto& m = slotmap[fn];
        if (m.empty()) {
            unsigned n = 0;
            for (auto& a : fn->args()) m[&a] = n++;
            for (auto& b : *fn) for (auto& i : b) m[&i] = n++;
        }
        return m;
    }
    unsigned slot(Frame& f, const Value* v)
    {
        if (!f.slots) f.slots = &slotsOf(f.fn);
        return f.slots->at(v);
    }
    Val op(State& s, const Value* v)
    {
        if (auto* C = dyn_cast<Constant>(v)) return constVal(s, C);
        Frame& f = s.stack.back();
        return applyFixed(s, f.regs[slot(f, v)]);
    }
    Val applyFixed(State& s, const Val& x)
    {
        if (!x.sym || s.fixed.empty()) return x;
        z3::expr_vector from(ZC), to(ZC);
        for (auto& [a, b] : s.fixed) { from.push_back(a); to.push_back(b); }
        z3::expr e = x.e;
        return mkSym(x.bits, e.substitute(from, to));
    }
    void setReg(State& s, const Value* v, const Val& x)
    {
        Frame& f = s.stack.back();
        f.regs[slot(f, v)] = applyFixed(s, x);
    }
    static void collectConsts(const z3::expr& e, std::set<unsigned>& seen, std::set<std::string>& out)
    {
        if (!e.is_app()) return;
        if (!seen.insert(e.id()).second) return;
        if (e.is_const() && !e.is_numeral()) { out.insert(e.decl().name().str()); return; }
        for (unsigned i = 0; i < e.num_args(); i++) collectConsts(e.arg(i), seen, out);
    }
    // pin inputs that the path condition makes unique (restricted to inputs occurring in the new constraint c)
    void fixInputs(State& s, const z3::expr* c = nullptr, bool solverForAll = false)
    {
        std::set<std::string> names; std::set<unsigned> seen;
        if (c) { collectConsts(*c, seen, names); if (names.empty()) return; }
        std::vector<unsigned> cand;
        for (unsigned i = 0; i < s.inputs.size(); i++) {
            if (s.fixedIdx.count(i)) continue;
            if (c && !names.count(s.inputs[i].first)) continue;
            if (!s.inputKey[i] && !solverForAll) {
                // syntactic fast path only: c is (input == numeral)
                if (c && c->is_eq() && c->num_args() == 2) {
                    z3::expr l = c->arg(0), r = c->arg(1);
                    if (z3::eq(l, s.inputs[i].second) && r.is_numeral()) { s.fixed.push_back({l, r}); s.fixedIdx.insert(i); }
                    else if (z3::eq(r, s.inputs[i].second) && l.is_numeral()) { s.fixed.push_back({r, l}); s.fixedIdx.insert(i); }
                }
                continue;
            }
            cand.push_back(i);
        }
        if (cand.empty()) return;
        z3::model m(ZC);
        if (s.lastModel) m = *s.lastModel; else if (check(s, nullptr, &m) != z3::sat) return;
        for (unsigned i : cand) {
            z3::expr v = m.eval(s.inputs[i].second, true);
            z3::expr ne = s.inputs[i].second != v;
            auto keep = s.lastModel;
            if (check(s, &ne) == z3::unsat) { s.fixed.push_back({s.inputs[i].second, v}); s.fixedIdx.insert(i); }
            else if (keep) s.lastModel = keep;  // keep the model that matches the values we are testing against
        }
    }
    void pushFrame(State& s, Function* F, std::vector<Val>& args, CallBase* cs)
    {
        if (F->isDeclaration()) throw EngineError("call to undefined function " + F->getName().str());
        if (loggedFns.insert(F).second) st.fns.insert(F->getName().str());
        Frame f;
        f.fn = F; f.bb = &F->getEntryBlock(); f.it = f.bb->begin(); f.callsite = cs;
        s.stack.push_back(std::move(f));
        Frame& fr = s.stack.back();
        fr.slots = &slotsOf(F);
        fr.regs.resize(fr.slots->size());
        unsigned i = 0;
        for (auto& a : F->args()) { if (i < args.size()) fr.regs[i] = args[i]; i++; }
        if (s.stack.size() > 2000) throw EngineError("stack depth exceeded");
    }

    // ---- arithmetic
    Val binop(unsigned opc, const Val& a, const Val& b, State& s)
    {
        unsigned w = a.bits;
        if (!a.sym && !b.sym) {
            uint64_t x = a.c, y = b.c; int64_t sx = a.sext(), sy = b.sext();
            switch (opc) {
            case Instruction::Add: return Val(w, x + y);
            case Instruction::Sub: return Val(w, x - y);
            case Instruction::Mul: return Val(w, x * y);
            case Instruction::UDiv: if (!y) throw MemFault("division by zero"); return Val(w, x / y);
            case Instruction::URem: if (!y) throw MemFault("division by zero"); return Val(w, x % y);
            case Instruction::SDiv: if (!y) throw MemFault("division by zero"); return Val(w, (uint64_t)(sx / sy));
            case Instruction::SRem: if (!y) throw MemFault("division by zero"); return Val(w, (uint64_t)(sx % sy));
            case Instruction::And: return Val(w, x & y);
            case Instruction::Or: return Val(w, x | y);
            case Instruction::Xor: return Val(w, x ^ y);
            case Instruction::Shl: return Val(w, y >= w ? 0 : x << y);
            case Instruction::LShr: return Val(w, y >= w ? 0 : x >> y);
            case Instruction::AShr: return Val(w, (uint64_t)(sx >> (y >= w ? w - 1 : y)));
            }
            throw EngineError("binop");
        }
        z3::expr x = a.ex(), y = b.ex();
        switch (opc) {
        case Instruction::Add: return mkSym(w, x + y);
        case Instruction::Sub: return mkSym(w, x - y);
        case Instruction::Mul: return mkSym(w, x * y);
        case Instruction::UDiv: return mkSym(w, z3::udiv(x, y));
        case Instruction::URem: return mkSym(w, z3::urem(x, y));
        case Instruction::SDiv: return mkSym(w, x / y);
        case Instruction::SRem: return mkSym(w, z3::srem(x, y));
        case Instruction::And: return mkSym(w, x & y);
        case Instruction::Or: return mkSym(w, x | y);
        case Instruction::Xor: return mkSym(w, x ^ y);
        case Instruction::Shl: return mkSym(w, z3::shl(x, y));
        case Instruction::LShr: return mkSym(w, z3::lshr(x, y));
        case Instruction::AShr: return mkSym(w, z3::ashr(x, y));
        }
        throw EngineError("sym binop");
    }
    Val icmp(CmpInst::Predicate p, const Val& a, const Val& b)
    {
        if (!a.sym && !b.sym) {
            uint64_t x = a.c, y = b.c; int64_t sx = a.sext(), sy = b.sext(); bool r;
            switch (p) {
            case CmpInst::ICMP_EQ: r = x == y; break; case CmpInst::ICMP_NE: r = x != y; break;
            case CmpInst::ICMP_UGT: r = x > y; break; case CmpInst::ICMP_UGE: r = x >= y; break;
            case CmpInst::ICMP_ULT: r = x < y; break; case CmpInst::ICMP_ULE: r = x <= y; break;
            case CmpInst::ICMP_SGT: r = sx > sy; break; case CmpInst::ICMP_SGE: r = sx >= sy; break;
            case CmpInst::ICMP_SLT: r = sx < sy; break; case CmpInst::ICMP_SLE: r = sx <= sy; break;
            default: throw EngineError("icmp pred");
            }
            return Val(1, r);
        }
        z3::expr x = a.ex(), y = b.ex();
        switch (p) {
        case CmpInst::ICMP_EQ: return fromBool(x == y); case CmpInst::ICMP_NE: return fromBool(x != y);
        case CmpInst::ICMP_UGT: return fromBool(z3::ugt(x, y)); case CmpInst::ICMP_UGE: return fromBool(z3::uge(x, y));
        case CmpInst::ICMP_ULT: return fromBool(z3::ult(x, y)); case CmpInst::ICMP_ULE: return fromBool(z3::ule(x, y));
        case CmpInst::ICMP_SGT: return fromBool(x > y); case CmpInst::ICMP_SGE: return fromBool(x >= y);
        case CmpInst::ICMP_SLT: return fromBool(x < y); case CmpInst::ICMP_SLE: return fromBool(x <= y);
        default: throw EngineError("icmp pred");
        }
    }
    Val castv(unsigned opc, const Val& a, unsigned w)
    {
        if (!a.sym) {
            switch (opc) {
            case Instruction::Trunc: case Instruction::ZExt: case Instruction::BitCast:
            case Instruction::PtrToInt: case Instruction::IntToPtr: return Val(w, a.c);
            case Instruction::SExt: return Val(w, (uint64_t)a.sext());
            }
            throw EngineError("cast");
        }
        switch (opc) {
        case Instruction::Trunc: return mkSym(w, a.e.extract(w - 1, 0));
        case Instruction::ZExt: return mkSym(w, z3::zext(a.e, w - a.bits));
        case Instruction::SExt: return mkSym(w, z3::sext(a.e, w - a.bits));
        case Instruction::BitCast: case Instruction::PtrToInt: case Instruction::IntToPtr:
            if (w == a.bits) return a;
            return w < a.bits ? mkSym(w, a.e.extract(w - 1, 0)) : mkSym(w, z3::zext(a.e, w - a.bits));
        }
        throw EngineError("sym cast");
    }

    // ---- externals
    void initExt()
    {
        // ---- harness API
        auto newInput = [this](State& s, const std::string& base0, unsigned bits, bool key, Val& r) {
            std::string base = (!base0.empty() && base0[0] == '!') ? base0.substr(1) : base0;
            std::string n = base + "#" + std::to_string(s.inputs.size());
            z3::expr e = ZC.bv_const(n.c_str(), bits);
            s.inputs.push_back({n, e});
            s.inputKey.push_back(key);
            if (concreteMode) {
                auto it = concreteInputs.find(n);
                uint64_t v = it == concreteInputs.end() ? 0 : it->second;
                s.fixed.push_back({e, ZC.bv_val(v, bits)}); s.fixedIdx.insert(s.inputs.size() - 1);
                r = Val(bits, v);
            } else r = Val(bits, e);
        };
        auto symIn = [this, newInput](unsigned bits) {
            return [this, bits, newInput](State& s, CallBase& cb, std::vector<Val>& a, Val& r) { newInput(s, readCStr(s, a[0].c), bits, false, r); return true; };
        };
        ext["vf_int"] = symIn(32); ext["vf_uint"] = symIn(32); ext["vf_long"] = symIn(64);
        ext["vf_i8"] = symIn(8); ext["vf_i16"] = symIn(16); ext["vf_double"] = symIn(64); ext["vf_u8"] = symIn(8);
        ext["vf_range"] = ext["vf_pick"] = ext["vf_bool"] = [this, newInput](State& s, CallBase& cb, std::vector<Val>& a, Val& r) {
            std::string fn = cb.getCalledFunction()->getName().str();
            int64_t lo = 0, hi = 1;
            if (fn == "vf_range") { lo = a[1].sext(); hi = a[2].sext(); } else if (fn == "vf_pick") { hi = a[1].sext() - 1; }
            if (hi < lo) return false;
            newInput(s, readCStr(s, a[0].c), 32, true, r);
            if (!r.sym) { if (r.sext() < lo || r.sext() > hi) r = Val(32, (uint64_t)lo); return true; }
            if (lo == hi) { s.fixed.push_back({r.e, ZC.bv_val((uint64_t)lo, 32)}); s.fixedIdx.insert(s.inputs.size() - 1); r = Val(32, (uint64_t)lo); return true; }
            addPc(s, r.e >= ZC.bv_val((uint64_t)lo, 32) && r.e <= ZC.bv_val((uint64_t)hi, 32));
            return true;
        };
        ext["vf_assume"] = [this](State& s, CallBase&, std::vector<Val>& a, Val&) {
            z3::expr c = a[0].sym ? (a[0].e != ZC.bv_val(0, a[0].bits)) : ZC.bool_val(a[0].c != 0);
            if (!maybe(s, c)) return false;  // infeasible: path ends silently
            if (!c.simplify().is_true()) { z3::expr cs = c.simplify(); addPc(s, cs); fixInputs(s, &cs); }
            return true;
        };
        ext["vf_reach"] = [this](State& s, CallBase&, std::vector<Val>& a, Val&) {
            std::string id = readCStr(s, a[0].c);
            s.reached.insert(id); st.reach.insert(id);
            return true;
        };
        ext["vf_note"] = [this](State& s, CallBase&, std::vector<Val>& a, Val&) { s.notes += readCStr(s, a[0].c); s.notes += "\n"; return true; };
        ext["vf_notei"] = [this](State& s, CallBase&, std::vector<Val>& a, Val&) {
            s.notes += readCStr(s, a[0].c) + "=";
            if (a[1].sym) { z3::model m(ZC); if (check(s, nullptr, &m) == z3::sat) { std::ostringstream os; os << m.eval(a[1].e, true); s.notes += "sym:" + os.str(); } }
            else s.notes += std::to_string((long)a[1].sext());
            s.notes += "\n"; return true; };
        ext["vf_budget"] = [this](State& s, CallBase&, std::vector<Val>& a, Val&) { s.budget = a[0].sext(); return true; };
        ext["vf_is_symbolic"] = [this](State&, CallBase&, std::vector<Val>&, Val& r) { r = Val(32, concreteMode ? 0 : 1); return true; };
        ext["vf_concretize"] = [this](State& s, CallBase&, std::vector<Val>& a, Val& r) {
            // returns one feasible value of the argument and constrains the path to it (recorded narrowing)
            if (!a[0].sym) { r = a[0]; return true; }
            z3::model m(ZC);
            if (check(s, nullptr, &m) != z3::sat) return false;
            uint64_t v = m.eval(a[0].e, true).get_numeral_uint64();
            { z3::expr q = a[0].e == ZC.bv_val(v, a[0].bits); addPc(s, q); fixInputs(s, &q, true); }
            r = Val(a[0].bits, v); return true; };
        ext["vf_assert"] = [this](State& s, CallBase&, std::vector<Val>& a, Val&) {
            std::string id = readCStr(s, a[1].c);
            st.asserts_checked++; st.assert_ids[id]++;
            z3::expr bad = a[0].sym ? (a[0].e == ZC.bv_val(0, a[0].bits)) : ZC.bool_val(a[0].c == 0);
            bad = bad.simplify();
            if (concreteMode) { s.notes += std::string("assert ") + id + (bad.is_false() ? " ok\n" : " FAIL\n"); if (!bad.is_false()) reportViolation(s, "assert", id, "assertion " + id + " fails", nullptr); return true; }
            if (bad.is_false()) return true;
            z3::model m(ZC);
            auto r = check(s, &bad, &m);
            if (r == z3::unknown) throw EngineError("solver unknown at assert " + id);
            if (r == z3::sat) {
                reportViolation(s, "assert", id, "assertion " + id + " can fail", &bad);
                if (bad.is_true()) return true;   // concretely false condition: reported; later assertions of this path are still evaluated
                addPc(s, !bad);  // continue on the passing side if feasible
                z3::expr t = ZC.bool_val(true);
                if (check(s, &t) != z3::sat) return false;
            }
            return true;
        };
        for (const char* nm : {"abort", "exit", "_ZSt9terminatev", "__cxa_pure_virtual", "__assert_fail", "_exit", "quick_exit"}) {
            std::string n = nm;
            ext[n] = [n](State&, CallBase&, std::vector<Val>&, Val&) -> bool { throw MemFault("process termination via " + n); };
        }
        ext["nexttoward"] = [](State&, CallBase&, std::vector<Val>& a, Val& r) {
            if (a[0].sym || a[1].sym) throw EngineError("symbolic nexttoward");
            double x, y; memcpy(&x, &a[0].c, 8); memcpy(&y, &a[1].c, 8);
            double z = nexttoward(x, (long double)y); uint64_t u; memcpy(&u, &z, 8); r = Val(64, u); return true; };
        for (const char* nm : {"sin", "cos", "exp", "log", "sqrt", "floor", "ceil", "fabs", "tan", "pow", "fmod"}) {
            std::string n = nm;
            ext[n] = [n](State&, CallBase&, std::vector<Val>& a, Val& r) {
                if (a[0].sym || (a.size() > 1 && a[1].sym)) throw EngineError("symbolic libm call " + n);
                double x, y = 0, z; memcpy(&x, &a[0].c, 8); if (a.size() > 1) memcpy(&y, &a[1].c, 8);
                z = n == "sin" ? sin(x) : n == "cos" ? cos(x) : n == "exp" ? exp(x) : n == "log" ? log(x) : n == "sqrt" ? sqrt(x) : n == "floor" ? floor(x) : n == "ceil" ? ceil(x) : n == "fabs" ? fabs(x) : n == "tan" ? tan(x) : n == "pow" ? pow(x, y) : fmod(x, y);
                uint64_t u; memcpy(&u, &z, 8); r = Val(64, u); return true; };
        }
        ext["malloc"] = ext["_Znwm"] = ext["_Znam"] = [this](State& s, CallBase&, std::vector<Val>& a, Val& r) {
            if (a[0].sym) throw EngineError("symbolic malloc size");
            r = Val(64, alloc(s, a[0].c, "heap", true)->base);
            return true;
        };
        ext["strlen"] = [this](State& s, CallBase&, std::vector<Val>& a, Val& r) {
            uint64_t n = 0;
            for (;; n++) {
                Val b = load(s, Val(64, a[0].c + n), 8);
                if (!b.sym) { if (!b.c) break; continue; }
                z3::expr z = b.e == ZC.bv_val(0, 8);
                if (!maybe(s, z)) continue;              // cannot be the terminator
                if (!maybe(s, !z)) break;                // must be the terminator
                throw EngineError("strlen over a byte that may or may not be zero");
            }
            r = Val(64, n); return true; };
        ext["dlopen"] = [](State&, CallBase&, std::vector<Val>&, Val& r) { r = Val(64, 0); return true; };   // no shared library can be loaded in the model
        ext["dlsym"] = [](State&, CallBase&, std::vector<Val>&, Val& r) { r = Val(64, 0); return true; };
        ext["dlclose"] = [](State&, CallBase&, std::vector<Val>&, Val& r) { r = Val(32, 0); return true; };
        ext["dlerror"] = [this](State& s, CallBase&, std::vector<Val>&, Val& r) { static const char msg[] = "dlopen: not available"; auto o = alloc(s, sizeof msg, "dlerror", true); for (size_t i = 0; i < sizeof msg; i++) store(s, Val(64, o->base + i), Val(8, (uint8_t)msg[i])); r = Val(64, o->base); return true; };
        ext["memcmp"] = ext["bcmp"] = [this](State& s, CallBase&, std::vector<Val>& a, Val& r) {
            if (a[2].sym) throw EngineError("symbolic memcmp len");
            for (uint64_t i = 0; i < a[2].c; i++) {
                Val x = load(s, Val(64, a[0].c + i), 8), y = load(s, Val(64, a[1].c + i), 8);
                if (x.sym || y.sym) throw EngineError("symbolic memcmp");
                if (x.c != y.c) { r = Val(32, x.c < y.c ? (uint64_t)-1 : 1); return true; }
            }
            r = Val(32, 0); return true;
        };
        ext["strcpy"] = [this](State& s, CallBase&, std::vector<Val>& a, Val& r) {
            for (uint64_t i = 0;; i++) { Val b = load(s, Val(64, a[1].c + i), 8); store(s, Val(64, a[0].c + i), b); if (!b.sym && !b.c) break; if (b.sym) throw EngineError("sym strcpy"); }
            r = a[0]; return true; };
        ext["strtol"] = [this](State& s, CallBase&, std::vector<Val>& a, Val& r) {
            std::string t = readCStr(s, a[0].c); char* e; errno = 0; long v = strtol(t.c_str(), &e, (int)a[2].c);
            if (errno) store(s, Val(64, errnoAddr), Val(32, (uint64_t)errno));   // errno is part of the modelled process state (set, never cleared, as in libc)
            if (a[1].c) store(s, a[1], Val(64, a[0].c + (e - t.c_str())));
            r = Val(64, (uint64_t)v); return true; };
        ext["strtod"] = [this](State& s, CallBase&, std::vector<Val>& a, Val& r) {
            std::string t = readCStr(s, a[0].c); char* e; errno = 0; double v = strtod(t.c_str(), &e);
            if (errno) store(s, Val(64, errnoAddr), Val(32, (uint64_t)errno));
            if (a[1].c) store(s, a[1], Val(64, a[0].c + (e - t.c_str())));
            uint64_t u; memcpy(&u, &v, 8); r = Val(64, u); return true; };
        ext["snprintf"] = [this](State& s, CallBase&, std::vector<Val>& a, Val& r) {
            std::string f = readCStr(s, a[2].c); char buf[256]; int n;
            if (f == "%d") n = snprintf(buf, sizeof buf, "%d", (int)a[3].sext());
            else if (f == "%g") { double d; memcpy(&d, &a[3].c, 8); n = snprintf(buf, sizeof buf, "%g", d); }
            else if (f == "%u") n = snprintf(buf, sizeof buf, "%u", (unsigned)a[3].c);
            else if (f == "%ld") n = snprintf(buf, sizeof buf, "%ld", (long)a[3].c);
            else if (f == "%lu") n = snprintf(buf, sizeof buf, "%lu", (unsigned long)a[3].c);
            else if (f.size() >= 2 && f[0] == '%' && strchr("gfeG", f.back()) && f.find('%', 1) == std::string::npos && f.find('*') == std::string::npos) { double d; memcpy(&d, &a[3].c, 8); if (a[3].sym) throw EngineError("snprintf of a symbolic double"); n = snprintf(buf, sizeof buf, f.c_str(), d); }
            else if (f == "%.*g" || f == "%.*f" || f == "%.*e") { double d; memcpy(&d, &a[4].c, 8); if (a[3].sym || a[4].sym) throw EngineError("snprintf of a symbolic double"); n = snprintf(buf, sizeof buf, f.c_str(), (int)a[3].sext(), d); }
            else throw EngineError("snprintf format " + f);
            uint64_t cap = a[1].c;
            for (uint64_t i = 0; i < cap; i++) { char c = (i < (uint64_t)n && i + 1 < cap) ? buf[i] : 0; store(s, Val(64, a[0].c + i), Val(8, (uint8_t)c)); if (!c) break; }
            r = Val(32, (uint64_t)n); return true; };
        for (const char* nm : {"isspace", "isalpha", "isalnum", "isdigit", "toupper", "tolower"}) {
            std::string n = nm;
            ext[n] = [n](State&, CallBase&, std::vector<Val>& a, Val& r) {
                if (a[0].sym) throw EngineError("symbolic ctype arg");
                int c = (int)a[0].sext(), v = 0;
                if (n == "isspace") v = isspace(c); else if (n == "isalpha") v = isalpha(c); else if (n == "isalnum") v = isalnum(c);
                else if (n == "isdigit") v = isdigit(c); else if (n == "toupper") v = toupper(c); else v = tolower(c);
                r = Val(32, (uint64_t)v); return true; };
        }
        ext["strcasecmp"] = [this](State& s, CallBase&, std::vector<Val>& a, Val& r) { r = Val(32, (uint64_t)strcasecmp(readCStr(s, a[0].c).c_str(), readCStr(s, a[1].c).c_str())); return true; };
        ext["__errno_location"] = [this](State& s, CallBase&, std::vector<Val>&, Val& r) { r = Val(64, errnoAddr); return true; };
        ext["stpcpy"] = [this](State& s, CallBase&, std::vector<Val>& a, Val& r) {
            uint64_t i = 0;
            for (;; i++) { Val b = load(s, Val(64, a[1].c + i), 8); if (b.sym) throw EngineError("sym stpcpy"); store(s, Val(64, a[0].c + i), b); if (!b.c) break; }
            r = Val(64, a[0].c + i); return true; };
        ext["strncpy"] = [this](State& s, CallBase&, std::vector<Val>& a, Val& r) {
            bool z = false;
            for (uint64_t i = 0; i < a[2].c; i++) { Val b = z ? Val(8, 0) : load(s, Val(64, a[1].c + i), 8); if (b.sym) throw EngineError("sym strncpy"); store(s, Val(64, a[0].c + i), b); if (!b.c) z = true; }
            r = a[0]; return true; };
        ext["strcmp"] = [this](State& s, CallBase&, std::vector<Val>& a, Val& r) {
            std::string x = readCStr(s, a[0].c), y = readCStr(s, a[1].c); int c = strcmp(x.c_str(), y.c_str()); r = Val(32, (uint64_t)(c < 0 ? -1 : c > 0)); return true; };
        ext["memcpy"] = ext["memmove"] = [this](State& s, CallBase&, std::vector<Val>& a, Val& r) {
            if (a[2].sym || a[0].sym || a[1].sym) throw EngineError("symbolic memcpy");
            bulkCopy(s, a[0].c, a[1].c, a[2].c);
            r = a[0]; return true; };
        ext["memset"] = [this](State& s, CallBase&, std::vector<Val>& a, Val& r) {
            if (a[2].sym || a[0].sym) throw EngineError("symbolic memset");
            bulkFill(s, a[0].c, Val(8, a[1].c), a[2].c);
            r = a[0]; return true; };
        ext["realloc"] = [this](State& s, CallBase&, std::vector<Val>& a, Val& r) {
            auto n = alloc(s, a[1].c, "heap", true);
            if (a[0].c) { auto o = s.mem.at(a[0].c); for (uint64_t i = 0; i < std::min(o->size, a[1].c); i++) store(s, Val(64, n->base + i), load(s, Val(64, a[0].c + i), 8)); }
            r = Val(64, n->base); return true; };
        ext["__cxa_allocate_exception"] = [this](State& s, CallBase&, std::vector<Val>& a, Val& r) { r = Val(64, alloc(s, a[0].c, "exception", true)->base); return true; };
        ext["__cxa_free_exception"] = [](State&, CallBase&, std::vector<Val>&, Val&) { return true; };
        ext["__cxa_begin_catch"] = [this](State& s, CallBase&, std::vector<Val>& a, Val& r) { s.caught.push_back(s.inflight); r = Val(64, a[0].c); return true; };
        ext["__cxa_end_catch"] = [this](State& s, CallBase&, std::vector<Val>&, Val&) { if (!s.caught.empty()) s.caught.pop_back(); return true; };
        ext["__cxa_guard_acquire"] = [this](State& s, CallBase&, std::vector<Val>& a, Val& r) { Val g = load(s, a[0], 8); r = Val(32, g.c ? 0 : 1); return true; };
        ext["__cxa_guard_release"] = [this](State& s, CallBase&, std::vector<Val>& a, Val&) { store(s, a[0], Val(8, 1)); return true; };
        ext["__cxa_guard_abort"] = [](State&, CallBase&, std::vector<Val>&, Val&) { return true; };
        ext["__cxa_atexit"] = [](State&, CallBase&, std::vector<Val>&, Val& r) { r = Val(32, 0); return true; };
        ext["free"] = ext["_ZdlPv"] = ext["_ZdaPv"] = ext["_ZdlPvm"] = [this](State& s, CallBase&, std::vector<Val>& a, Val&) {
            if (a[0].sym) throw EngineError("symbolic free");
            if (!a[0].c) return true;
            auto it = s.mem.find(a[0].c);
            if (it == s.mem.end() || !it->second->heap) throw MemFault("free of non-heap pointer");
            if (it->second->freed) throw MemFault("double free");
            ObjP o = it->second;
            writable(s, o).freed = true;
            return true;
        };
    }

    // ---- exceptions
    std::map<uint64_t, int> tidOf;
    int typeIdFor(uint64_t ti) { if (!ti) return 0x7fff; auto it = tidOf.find(ti); if (it != tidOf.end()) return it->second; int n = tidOf.size() + 1; tidOf[ti] = n; return n; }
    std::string gname(uint64_t a) { for (auto& [g, ad] : gaddr) if (ad == a) return g->getName().str(); return "?"; }
    uint64_t gaddrByName(const char* n) { if (auto* g = M.getNamedValue(n)) { auto it = gaddr.find(g); if (it != gaddr.end()) return it->second; } return 0; }
    uint64_t baseType(State& s, uint64_t ti)
    {
        // fixed table for external std type_infos, otherwise __si_class_type_info layout {vptr, name, base}
        static const char* ext[][2] = {{"_ZTISt11logic_error", "_ZTISt9exception"}, {"_ZTISt13runtime_error", "_ZTISt9exception"}, {"_ZTISt12system_error", "_ZTISt13runtime_error"},
            {"_ZTISt12out_of_range", "_ZTISt11logic_error"}, {"_ZTISt12length_error", "_ZTISt11logic_error"}, {"_ZTISt16invalid_argument", "_ZTISt11logic_error"}, {"_ZTISt12domain_error", "_ZTISt11logic_error"},
            {"_ZTISt18bad_variant_access", "_ZTISt9exception"}, {"_ZTISt9bad_alloc", "_ZTISt9exception"}, {"_ZTISt12bad_weak_ptr", "_ZTISt9exception"}, {"_ZTISt8bad_cast", "_ZTISt9exception"}, {"_ZTISt20bad_array_new_length", "_ZTISt9bad_alloc"}};
        std::string n = gname(ti);
        for (auto& e : ext) if (n == e[0]) return gaddrByName(e[1]);
        auto* g = dyn_cast_or_null<GlobalVariable>(M.getNamedValue(n));
        if (!g || !g->hasInitializer()) return 0;
        auto* cs = dyn_cast<ConstantStruct>(g->getInitializer());
        if (!cs || cs->getNumOperands() < 3) return 0;
        return load(s, Val(64, ti + 16), 64).c;
    }
    bool isA(State& s, uint64_t thrown, uint64_t target)
    {
        if (!target) return true;
        for (uint64_t t = thrown; t; t = baseType(s, t)) if (t == target) return true;
        return false;
    }
    // returns false if the exception leaves the entry function
    bool unwind(State& s, bool fromCurrentInst)
    {
        s.unwinding = true;
        bool first = fromCurrentInst;
        while (!s.stack.empty()) {
            Frame& f = s.stack.back();
            Instruction* site = nullptr;
            if (first) { auto it = f.it; --it; site = &*it; first = false; }
            else {
                CallBase* cs = f.callsite;
                releaseAllocas(s, f);
                s.stack.pop_back();
                if (s.stack.empty()) break;
                site = cs;
            }
            auto* inv = dyn_cast_or_null<InvokeInst>(site);
            if (!inv) continue;
            LandingPadInst* lp = inv->getLandingPadInst();
            int sel = -1;
            for (unsigned i = 0; i < lp->getNumClauses(); i++) {
                if (!lp->isCatch(i)) throw EngineError("filter clause in landingpad");
                Val ti = constVal(s, lp->getClause(i));
                if (isA(s, s.inflight.tinfo, ti.c)) { sel = typeIdFor(ti.c); break; }
            }
            if (sel < 0 && !lp->isCleanup()) continue;
            if (sel < 0) sel = 0;
            jump(s, inv->getUnwindDest());
            Frame& fr = s.stack.back();
            // landingpad is first non-phi instruction
            Val r; r.agg = std::make_shared<std::vector<Val>>(std::vector<Val>{Val(64, s.inflight.obj), Val(32, (uint64_t)sel)});
            setReg(s, &*fr.it, r);
            ++fr.it;
            s.unwinding = false;
            return true;
        }
        return false;
    }

    // ---- main loop
    void finishPath(State& s, const char* why)
    {
        if (!strcmp(why, "forked")) { st.insts += s.steps; s.steps = 0; return; }
        st.paths++;
        st.insts += s.steps;
        st.ends[why]++;
        if (s.steps > st.max_path_insts) st.max_path_insts = s.steps;
        // signature of the pinned key inputs = one explored case
        std::string sig;
        for (unsigned i = 0; i < s.inputs.size(); i++) {
            if (!s.inputKey[i]) continue;
            std::string v = "*";
            for (auto& fx : s.fixed) if (z3::eq(fx.first, s.inputs[i].second)) { std::ostringstream os; uint64_t u; if (fx.second.is_numeral_u64(u)) os << (int32_t)u; else os << fx.second; v = os.str(); }
            sig += s.inputs[i].first.substr(0, s.inputs[i].first.find('#')) + "=" + v + " ";
        }
        if (!sig.empty()) { if (st.keysigs.size() < 200000) st.keysigs.insert(sig); if (st.samples.size() < 12 && (st.paths % 7 == 1 || st.samples.empty())) st.samples.push_back(sig + "-> " + why); }
        if (concreteMode) std::cout << "NOTES-BEGIN\n" << s.notes << "end " << why << "\nNOTES-END\n";
        if (verbose) std::cerr << "path " << s.id << " ends: " << why << " steps=" << s.steps << "\n";
    }
    void runState(State& s)
    {
        try {
            const char* why = exec(s);
            finishPath(s, why);
        } catch (MemFault& e) {
            reportViolation(s, "fault", "mem", e.what(), nullptr);
            if (concreteMode) s.notes += std::string("fault ") + e.what() + "\n";
            finishPath(s, "fault");
        } catch (EngineError& e) {
            errors.push_back(std::string("engine: ") + e.what() + " in " + (s.stack.empty() ? "?" : stackStr(s)));
            st.errors++;
            finishPath(s, "engine error");
        } catch (z3::exception& e) {
            errors.push_back(std::string("z3: ") + e.msg() + " in " + (s.stack.empty() ? "?" : stackStr(s)));
            st.errors++;
            finishPath(s, "engine error");
        }
    }
    int jobs = 1;
    std::string jsonPath;
    void run(Function* entry)
    {
        State s0;
        initGlobals(s0);
        std::vector<Val> noargs;
        // run global constructors concretely first
        if (auto* gc = M.getNamedGlobal("llvm.global_ctors")) {
            if (auto* arr = dyn_cast<ConstantArray>(gc->getInitializer())) {
                std::vector<std::pair<uint64_t, Function*>> ctors;
                for (auto& o : arr->operands()) {
                    auto* cs = cast<ConstantStruct>(o.get());
                    ctors.push_back({cast<ConstantInt>(cs->getOperand(0))->getZExtValue(), cast<Function>(cs->getOperand(1)->stripPointerCasts())});
                }
                std::stable_sort(ctors.begin(), ctors.end(), [](auto& a, auto& b) { return a.first < b.first; });
                for (auto& [p, f] : ctors) {
                    pushFrame(s0, f, noargs, nullptr);
                    const char* why = exec(s0);
                    if (std::string(why) != "returned") throw EngineError(std::string("global ctor failed: ") + why);
                }
                st.ctor_insts = s0.steps;
            }
        }
        pushFrame(s0, entry, noargs, nullptr);
        work.push_back(std::move(s0));
        // phase 1: breadth-first until there is enough work to share out
        size_t spread = jobs > 1 ? (size_t)jobs * 16 : 0;
        double tPhase1 = now();
        while (!work.empty() && work.size() < spread) {
            if (st.paths >= maxPaths) break;
            State s = std::move(work.front());
            work.erase(work.begin());
            runState(s);
            // states are expensive: share out what there is (round-robin over the workers evens out unequal subtrees only if there are many states)
            double el = now() - tPhase1;
            if ((el > 2 && work.size() >= (size_t)jobs * 4) || (el > 6 && work.size() >= (size_t)jobs) || (el > 20 && work.size() >= 2)) break;
        }
        int rank = -1;
        std::vector<pid_t> kids;
        if (jobs > 1 && work.size() >= 2) {
            fflush(stdout); fflush(stderr);
            for (int k = 0; k < jobs; k++) {
                pid_t pid = fork();
                if (pid == 0) { rank = k; break; }
                kids.push_back(pid);
            }
            if (rank >= 0) {
                // child: keep every jobs-th state, reset counters (the parent reports phase 1)
                std::vector<State> mine;
                for (size_t i = 0; i < work.size(); i++) if ((int)(i % jobs) == rank) mine.push_back(std::move(work[i]));
                work = std::move(mine);
                st = Stats(); viols.clear(); errors.clear();
                std::reverse(work.begin(), work.end());
            } else work.clear();
        }
        while (!work.empty()) {
            if (st.paths >= maxPaths) { errors.push_back("path limit reached"); st.errors++; break; }
            if (deadline > 0 && now() > deadline) { errors.push_back("time limit reached with " + std::to_string(work.size()) + " states pending"); st.errors++; break; }
            State s = std::move(work.back());
            work.pop_back();
            runState(s);
        }
        if (rank >= 0) { writeJson(jsonPath + "." + std::to_string(rank)); fflush(stdout); _exit(0); }
        writeJson(jsonPath + ".main");
        for (auto pid : kids) { int stt = 0; waitpid(pid, &stt, 0); if (!WIFEXITED(stt) || WEXITSTATUS(stt) != 0) { nChildFail++; } }
        nKids = kids.size();
    }
    int nChildFail = 0; size_t nKids = 0;
    uint64_t errnoAddr = 0;
    double deadline = 0;
    static double now() { return std::chrono::duration<double>(std::chrono::steady_clock::now().time_since_epoch()).count(); }
    void writeJson(const std::string& path)
    {
        std::ofstream o(path);
        auto strset = [&](const char* k, const std::set<std::string>& v) { o << "\"" << k << "\":["; bool f = true; for (auto& x : v) { o << (f ? "" : ",") << "\"" << jesc(x) << "\""; f = false; } o << "]"; };
        auto cmap = [&](const char* k, const std::map<std::string, uint64_t>& v) { o << "\"" << k << "\":{"; bool f = true; for (auto& [x, n] : v) { o << (f ? "" : ",") << "\"" << jesc(x) << "\":" << n; f = false; } o << "}"; };
        o << "{\"paths\":" << st.paths << ",\"insts\":" << st.insts << ",\"ctor_insts\":" << st.ctor_insts << ",\"forks\":" << st.forks << ",\"queries\":" << st.queries
          << ",\"cache_hits\":" << st.cache_hits << ",\"solver_s\":" << st.solver_s << ",\"symaddr\":" << st.symaddr << ",\"asserts\":" << st.asserts_checked
          << ",\"max_path_insts\":" << st.max_path_insts << ",\"external_queries\":" << st.external_queries << ",\"external_unsat\":" << st.external_unsat << ",\"errors_n\":" << st.errors << ",";
        strset("fns", st.fns); o << ","; strset("reach", st.reach); o << ","; strset("keysigs", st.keysigs); o << ",";
        cmap("assert_ids", st.assert_ids); o << ","; cmap("uncaught", st.uncaught); o << ","; cmap("ends", st.ends); o << ",";
        o << "\"samples\":["; for (size_t i = 0; i < st.samples.size(); i++) o << (i ? "," : "") << "\"" << jesc(st.samples[i]) << "\""; o << "],";
        o << "\"errors\":["; for (size_t i = 0; i < errors.size(); i++) o << (i ? "," : "") << "\"" << jesc(errors[i]) << "\""; o << "],";
        o << "\"violations\":[";
        for (size_t i = 0; i < viols.size(); i++) {
            auto& v = viols[i];
            o << (i ? "," : "") << "{\"kind\":\"" << v.kind << "\",\"id\":\"" << jesc(v.id) << "\",\"msg\":\"" << jesc(v.msg) << "\",\"stack\":\"" << jesc(v.stack) << "\",\"truncated\":" << (v.truncated ? "true" : "false") << ",\"keys\":{";
            for (size_t k = 0; k < v.keys.size(); k++) o << (k ? "," : "") << "\"" << jesc(v.keys[k].first) << "\":\"" << jesc(v.keys[k].second) << "\"";
            o << "},\"model\":{";
            for (size_t k = 0; k < v.model.size(); k++) o << (k ? "," : "") << "\"" << jesc(v.model[k].first) << "\":\"" << jesc(v.model[k].second) << "\"";
            o << "}}";
        }
        o << "]}\n";
    }
    void jump(State& s, BasicBlock* to)
    {
        Frame& f = s.stack.back();
        f.prev = f.bb; f.bb = to; f.it = to->begin();
        // phis: evaluate all with old values
        std::vector<std::pair<const Value*, Val>> upd;
        for (auto& I : *to) {
            auto* phi = dyn_cast<PHINode>(&I);
            if (!phi) break;
            upd.push_back({phi, op(s, phi->getIncomingValueForBlock(f.prev))});
            ++f.it;
        }
        for (auto& [v, x] : upd) setReg(s, v, x);
    }
    const char* uncaught(State& s)
    {
        std::string tn = gname(s.inflight.tinfo);
        bool isStd = isA(s, s.inflight.tinfo, gaddrByName("_ZTISt9exception"));
        st.uncaught[tn]++;
        if (!isStd) throw MemFault("uncaught non-std exception " + tn);
        // a std::exception that leaves the harness ends the path before its remaining assertions: reported, so that no harness loses paths silently
        reportViolation(s, "uncaught", tn, "std::exception left the harness", nullptr);
        return "uncaught std::exception";
    }
    const char* exec(State& s)
    {
        for (;;) {
            if (s.stack.empty()) return "returned";
            if (++s.steps > maxSteps) throw EngineError("step limit");
            if (s.budget >= 0 && --s.budget < 0) throw MemFault("instruction budget set by the harness exhausted (non-termination or disproportionate work)");
            Frame& f = s.stack.back();
            Instruction& I = *f.it;
            ++f.it;
            switch (I.getOpcode()) {
            case Instruction::Ret: {
                Val rv;
                if (I.getNumOperands()) rv = op(s, I.getOperand(0));
                releaseAllocas(s, f);
                CallBase* cs = f.callsite;
                s.stack.pop_back();
                if (s.stack.empty()) return "returned";
                if (cs && !cs->getType()->isVoidTy()) setReg(s, cs, rv);
                if (auto* inv = dyn_cast_or_null<InvokeInst>(cs)) jump(s, inv->getNormalDest());
                break;
            }
            case Instruction::Br: {
                auto& br = cast<BranchInst>(I);
                if (br.isUnconditional()) { jump(s, br.getSuccessor(0)); break; }
                Val c = op(s, br.getCondition());
                if (!c.sym) { jump(s, br.getSuccessor(c.c ? 0 : 1)); break; }
                z3::expr t = toBool(c);
                bool mt = maybe(s, t), mf = maybe(s, !t);
                if (mt && mf) {
                    st.forks++;
                    State o = s;  // copy
                    o.id = nextState++;
                    { z3::expr nt = (!t).simplify(); addPc(o, nt); fixInputs(o, &nt); }
                    jump(o, br.getSuccessor(1));
                    work.push_back(std::move(o));
                    { z3::expr ts = t.simplify(); addPc(s, ts); fixInputs(s, &ts); }
                    jump(s, br.getSuccessor(0));
                } else if (mt) jump(s, br.getSuccessor(0));
                else if (mf) jump(s, br.getSuccessor(1));
                else return "infeasible";
                break;
            }
            case Instruction::Switch: {
                auto& sw = cast<SwitchInst>(I);
                Val c = op(s, sw.getCondition());
                if (!c.sym) {
                    auto* ci = ConstantInt::get(cast<IntegerType>(sw.getCondition()->getType()), c.c);
                    jump(s, sw.findCaseValue(ci)->getCaseSuccessor());
                    break;
                }
                z3::expr none = ZC.bool_val(true);
                bool taken = false;
                State base = s;
                for (auto& cs : sw.cases()) {
                    z3::expr eq = c.e == ZC.bv_val(cs.getCaseValue()->getZExtValue(), c.bits);
                    none = none && !eq;
                    if (maybe(base, eq)) {
                        State o = base; o.id = nextState++; addPc(o, eq); fixInputs(o, &eq);
                        jump(o, cs.getCaseSuccessor());
                        work.push_back(std::move(o)); st.forks++;
                    }
                }
                if (maybe(base, none)) { addPc(s, none); jump(s, sw.getDefaultDest()); taken = true; }
                if (!taken) return "forked";
                break;
            }
            case Instruction::Unreachable: throw MemFault("reached unreachable");
            case Instruction::Alloca: {
                auto& ai = cast<AllocaInst>(I);
                Val n = op(s, ai.getArraySize());
                if (n.sym) throw EngineError("symbolic alloca");
                uint64_t sz = DL.getTypeAllocSize(ai.getAllocatedType()) * n.c;
                auto o = alloc(s, sz, "alloca", false, true);
                s.stack.back().allocas.push_back(o->base);
                setReg(s, &I, Val(64, o->base));
                break;
            }
            case Instruction::Load: {
                Type* t = I.getType();
                if (!t->isIntegerTy() && !t->isPointerTy() && !t->isDoubleTy() && !t->isFloatTy()) throw EngineError("load of aggregate");
                Val p = applyFixed(s, op(s, I.getOperand(0)));
                if (p.sym && forkOnAddr) {
                    unsigned bits = DL.getTypeSizeInBits(t);
                    auto as = feasibleAddrs(s, p, (bits + 7) / 8);
                    if (as.empty()) return "infeasible";
                    // group the feasible addresses by the (concrete) value found there: one fork per distinct value
                    std::vector<std::pair<Val, std::vector<uint64_t>>> groups;
                    for (auto a : as) {
                        Val v;
                        try { v = load(s, Val(64, a), bits); }
                        catch (MemFault& mf) {
                            State o = s; o.id = nextState++;
                            z3::expr q = p.e == ZC.bv_val(a, 64); addPc(o, q);
                            reportViolation(o, "fault", "mem", std::string(mf.what()) + " (symbolic address)", nullptr);
                            continue;
                        }
                        bool found = false;
                        if (!v.sym) for (auto& g : groups) if (!g.first.sym && g.first.c == v.c) { g.second.push_back(a); found = true; break; }
                        if (!found) groups.push_back({v, {a}});
                    }
                    if (groups.empty()) return "fault-on-all-addresses";
                    for (size_t gi = 0; gi < groups.size(); gi++) {
                        z3::expr q = ZC.bool_val(false);
                        for (auto a : groups[gi].second) q = q || (p.e == ZC.bv_val(a, 64));
                        q = q.simplify();
                        if (gi + 1 < groups.size()) {
                            State o = s; o.id = nextState++; st.forks++;
                            addPc(o, q); fixInputs(o, &q, true);
                            setReg(o, &I, groups[gi].first);
                            work.push_back(std::move(o));
                        } else {
                            addPc(s, q); fixInputs(s, &q, true);
                            setReg(s, &I, groups[gi].first);
                        }
                    }
                    break;
                }
                setReg(s, &I, load(s, p, DL.getTypeSizeInBits(t)));
                break;
            }
            case Instruction::Store: store(s, op(s, I.getOperand(1)), op(s, I.getOperand(0))); break;
            case Instruction::GetElementPtr: {
                auto& g = cast<GetElementPtrInst>(I);
                Val base = op(s, g.getPointerOperand());
                Val off(64, 0);
                for (auto gi = gep_type_begin(g), ge = gep_type_end(g); gi != ge; ++gi) {
                    Val idx = op(s, gi.getOperand());
                    if (StructType* stt = gi.getStructTypeOrNull()) {
                        off = binop(Instruction::Add, off, Val(64, DL.getStructLayout(stt)->getElementOffset(idx.c)), s);
                    } else {
                        uint64_t es = DL.getTypeAllocSize(gi.getIndexedType());
                        Val i64 = idx.bits < 64 ? castv(Instruction::SExt, idx, 64) : idx;
                        off = binop(Instruction::Add, off, binop(Instruction::Mul, i64, Val(64, es), s), s);
                    }
                }
                setReg(s, &I, binop(Instruction::Add, base, off, s));
                break;
            }
            case Instruction::ICmp: setReg(s, &I, icmp(cast<ICmpInst>(I).getPredicate(), op(s, I.getOperand(0)), op(s, I.getOperand(1)))); break;
            case Instruction::Select: {
                Val c = op(s, I.getOperand(0)), a = op(s, I.getOperand(1)), b = op(s, I.getOperand(2));
                if (!c.sym) setReg(s, &I, c.c ? a : b);
                else setReg(s, &I, mkSym(a.bits, z3::ite(toBool(c), a.ex(), b.ex())));
                break;
            }
            case Instruction::Trunc: case Instruction::ZExt: case Instruction::SExt: case Instruction::BitCast:
            case Instruction::PtrToInt: case Instruction::IntToPtr:
                setReg(s, &I, castv(I.getOpcode(), op(s, I.getOperand(0)), DL.getTypeSizeInBits(I.getType())));
                break;
            case Instruction::Call: case Instruction::Invoke: {
                auto& cb = cast<CallBase>(I);
                Function* F = cb.getCalledFunction();
                if (!F) {
                    Val fp = op(s, cb.getCalledOperand());
                    if (fp.sym) throw EngineError("symbolic function pointer");
                    auto it = faddr.find(fp.c);
                    if (it == faddr.end()) throw MemFault("call through invalid function pointer");
                    F = it->second;
                }
                if (auto rp = replace.find(F->getName().str()); rp != replace.end()) {
                    F = M.getFunction(rp->second);
                    if (!F) throw EngineError("replacement not found");
                }
                if (F->isIntrinsic()) {
                    switch (F->getIntrinsicID()) {
                    case Intrinsic::lifetime_start: case Intrinsic::lifetime_end: case Intrinsic::dbg_declare:
                    case Intrinsic::dbg_value: case Intrinsic::assume: case Intrinsic::experimental_noalias_scope_decl: break;
                    case Intrinsic::smin: case Intrinsic::smax: case Intrinsic::umin: case Intrinsic::umax: {
                        Val a = op(s, cb.getArgOperand(0)), b = op(s, cb.getArgOperand(1));
                        CmpInst::Predicate p = F->getIntrinsicID() == Intrinsic::smin ? CmpInst::ICMP_SLT : F->getIntrinsicID() == Intrinsic::smax ? CmpInst::ICMP_SGT
                                             : F->getIntrinsicID() == Intrinsic::umin ? CmpInst::ICMP_ULT : CmpInst::ICMP_UGT;
                        Val c = icmp(p, a, b);
                        setReg(s, &I, !c.sym ? (c.c ? a : b) : mkSym(a.bits, z3::ite(toBool(c), a.ex(), b.ex())));
                        break;
                    }
                    case Intrinsic::memcpy: case Intrinsic::memmove: {
                        Val d = applyFixed(s, op(s, cb.getArgOperand(0))), sr = applyFixed(s, op(s, cb.getArgOperand(1))), n = op(s, cb.getArgOperand(2));
                        if (n.sym) throw EngineError("symbolic memcpy length");
                        if (d.sym || sr.sym) {
                            // symbolic source and/or destination: one fork per feasible (destination, source) pair, the copy is done with concrete addresses in each
                            std::vector<uint64_t> ds = d.sym ? feasibleAddrs(s, d, n.c) : std::vector<uint64_t>{d.c};
                            if (ds.empty()) return "infeasible";
                            bool first = true; State base = s;
                            if (auto* inv = dyn_cast<InvokeInst>(&I)) jump(base, inv->getNormalDest());
                            for (size_t di = 0; di < ds.size(); di++) {
                                State sd = base;
                                if (d.sym) { z3::expr q = d.e == ZC.bv_val(ds[di], 64); if (!maybe(sd, q)) continue; addPc(sd, q); fixInputs(sd, &q, true); }
                                Val sr2 = applyFixed(sd, sr);
                                std::vector<uint64_t> ss = sr2.sym ? feasibleAddrs(sd, sr2, n.c) : std::vector<uint64_t>{sr2.c};
                                for (size_t si = 0; si < ss.size(); si++) {
                                    State o = sd; o.id = nextState++; st.forks++;
                                    if (sr2.sym) { z3::expr q = sr2.e == ZC.bv_val(ss[si], 64); addPc(o, q); fixInputs(o, &q, true); }
                                    bulkCopy(o, ds[di], ss[si], n.c);
                                    work.push_back(std::move(o));
                                    first = false;
                                }
                            }
                            (void)first;
                            return "forked";
                        }
                        bulkCopy(s, d.c, sr.c, n.c);
                        break;
                    }
                    case Intrinsic::memset: {
                        Val d = op(s, cb.getArgOperand(0)), v = op(s, cb.getArgOperand(1)), n = op(s, cb.getArgOperand(2));
                        if (n.sym || d.sym) throw EngineError("symbolic memset");
                        bulkFill(s, d.c, v.sym ? v : Val(8, v.c & 0xff), n.c);
                        break;
                    }
                    case Intrinsic::fabs: {
                        Val a = op(s, cb.getArgOperand(0));
                        uint64_t m = a.bits == 64 ? 0x7fffffffffffffffULL : 0x7fffffffULL;
                        setReg(s, &I, a.sym ? mkSym(a.bits, a.e & ZC.bv_val(m, a.bits)) : Val(a.bits, a.c & m));
                        break;
                    }
                    case Intrinsic::trap: throw MemFault("llvm.trap (abort)");
                    case Intrinsic::eh_typeid_for: setReg(s, &I, Val(32, (uint64_t)typeIdFor(op(s, cb.getArgOperand(0)).c))); break;
                    case Intrinsic::abs: {
                        Val a = op(s, cb.getArgOperand(0));
                        Val neg = binop(Instruction::Sub, Val(a.bits, 0), a, s);
                        Val c = icmp(CmpInst::ICMP_SLT, a, Val(a.bits, 0));
                        setReg(s, &I, !c.sym ? (c.c ? neg : a) : mkSym(a.bits, z3::ite(toBool(c), neg.ex(), a.ex())));
                        break;
                    }
                    case Intrinsic::fmuladd: case Intrinsic::fma: {
                        Val a = op(s, cb.getArgOperand(0)), b = op(s, cb.getArgOperand(1)), c = op(s, cb.getArgOperand(2));
                        if (a.sym || b.sym || c.sym || a.bits != 64) throw EngineError("symbolic or non-double fmuladd");
                        double x, y, z; memcpy(&x, &a.c, 8); memcpy(&y, &b.c, 8); memcpy(&z, &c.c, 8);
                        double r = x * y + z; uint64_t u; memcpy(&u, &r, 8);
                        setReg(s, &I, Val(64, u));
                        break;
                    }
                    case Intrinsic::ctlz: case Intrinsic::cttz: case Intrinsic::ctpop: case Intrinsic::bswap: {
                        Val a = op(s, cb.getArgOperand(0));
                        if (a.sym) throw EngineError("symbolic bit-count intrinsic " + F->getName().str());
                        uint64_t v = a.bits < 64 ? (a.c & ((1ULL << a.bits) - 1)) : a.c, r = 0;
                        switch (F->getIntrinsicID()) {
                        case Intrinsic::ctlz: r = a.bits; for (unsigned k = 0; k < a.bits; k++) if (v >> (a.bits - 1 - k) & 1) { r = k; break; } break;
                        case Intrinsic::cttz: r = a.bits; for (unsigned k = 0; k < a.bits; k++) if (v >> k & 1) { r = k; break; } break;
                        case Intrinsic::ctpop: r = __builtin_popcountll(v); break;
                        default: for (unsigned k = 0; k < a.bits / 8; k++) r |= ((v >> (8 * k)) & 0xff) << (a.bits - 8 - 8 * k); break;
                        }
                        setReg(s, &I, Val(a.bits, r));
                        break;
                    }
                    default: throw EngineError("intrinsic " + F->getName().str());
                    }
                    if (auto* inv = dyn_cast<InvokeInst>(&I)) jump(s, inv->getNormalDest());
                    break;
                }
                std::vector<Val> args;
                for (auto& a : cb.args()) args.push_back(op(s, a.get()));
                if (F->getName() == "__cxa_throw" || F->getName() == "__cxa_rethrow") {
                    if (F->getName() == "__cxa_throw") s.inflight = State::Exc{args[0].c, args[1].c, args[2].c};
                    else { if (s.caught.empty()) throw MemFault("rethrow without exception"); s.inflight = s.caught.back(); }
                    if (!unwind(s, true)) return uncaught(s);
                    break;
                }
                if (F->getName() == "llvm.eh.typeid.for") { setReg(s, &I, Val(32, (uint64_t)typeIdFor(args.empty() ? op(s, cb.getArgOperand(0)).c : args[0].c))); break; }
                if (F->isDeclaration() && F->getName().substr(0, 3) != "vf_") {
                    bool forked = false;
                    for (unsigned ai = 0; ai < args.size() && !forked; ai++) {
                        if (!args[ai].sym || !cb.getArgOperand(ai)->getType()->isPointerTy()) continue;
                        auto as = feasibleAddrs(s, args[ai]);
                        if (as.empty()) return "infeasible";
                        --s.stack.back().it;  // re-execute the call in every fork
                        for (size_t k = 1; k < as.size(); k++) {
                            State o = s; o.id = nextState++; st.forks++;
                            { z3::expr q = args[ai].e == ZC.bv_val(as[k], 64); addPc(o, q); fixInputs(o, &q, true); }
                            work.push_back(std::move(o));
                        }
                        { z3::expr q = args[ai].e == ZC.bv_val(as[0], 64); addPc(s, q); fixInputs(s, &q, true); }
                        forked = true;
                    }
                    if (forked) break;
                }
                if (F->isDeclaration() && !concreteMode && (F->getName() == "vf_pick" || F->getName() == "vf_range" || F->getName() == "vf_bool")) {
                    std::string nm = readCStr(s, args[0].c);
                    if (!nm.empty() && nm[0] == '!') {
                        // eager key: one state per value of the domain, the value is concrete from the start
                        int64_t lo = 0, hi = 1;
                        if (F->getName() == "vf_range") { lo = args[1].sext(); hi = args[2].sext(); } else if (F->getName() == "vf_pick") hi = args[1].sext() - 1;
                        if (hi < lo) return "assume-false";
                        if (hi - lo > 65536) throw EngineError("eager key domain too large");
                        std::string n = nm.substr(1) + "#" + std::to_string(s.inputs.size());
                        z3::expr e = ZC.bv_const(n.c_str(), 32);
                        s.inputs.push_back({n, e}); s.inputKey.push_back(true);
                        unsigned idx = s.inputs.size() - 1;
                        if (lo == hi) {
                            s.fixed.push_back({e, ZC.bv_val((uint64_t)(uint32_t)lo, 32)}); s.fixedIdx.insert(idx);
                            addPc(s, e == ZC.bv_val((uint64_t)(uint32_t)lo, 32));
                            setReg(s, &I, Val(32, (uint64_t)lo));
                            if (auto* inv = dyn_cast<InvokeInst>(&I)) jump(s, inv->getNormalDest());
                            break;
                        }
                        uint64_t done = s.steps; s.steps = 0;
                        for (int64_t v = hi; v >= lo; v--) {
                            State o = s; o.id = nextState++; st.forks++;
                            o.fixed.push_back({e, ZC.bv_val((uint64_t)(uint32_t)v, 32)}); o.fixedIdx.insert(idx);
                            addPc(o, e == ZC.bv_val((uint64_t)(uint32_t)v, 32));
                            setReg(o, &I, Val(32, (uint64_t)v));
                            if (auto* inv = dyn_cast<InvokeInst>(&I)) jump(o, inv->getNormalDest());
                            work.push_back(std::move(o));
                        }
                        s.steps = done;
                        return "forked";
                    }
                }
                if (F->isDeclaration()) {
                    auto it = ext.find(F->getName().str());
                    if (it == ext.end()) throw EngineError("unmodelled external " + F->getName().str());
                    Val r;
                    if (!it->second(s, cb, args, r)) return "assume-false";
                    if (!I.getType()->isVoidTy()) setReg(s, &I, r);
                    if (auto* inv = dyn_cast<InvokeInst>(&I)) jump(s, inv->getNormalDest());
                    break;
                }
                pushFrame(s, F, args, &cb);
                break;
            }
            case Instruction::AtomicRMW: {
                auto& rmw = cast<AtomicRMWInst>(I);
                Val p = op(s, rmw.getPointerOperand()), v = op(s, rmw.getValOperand());
                Val old = load(s, p, v.bits), nv;
                switch (rmw.getOperation()) {
                case AtomicRMWInst::Add: nv = binop(Instruction::Add, old, v, s); break;
                case AtomicRMWInst::Sub: nv = binop(Instruction::Sub, old, v, s); break;
                case AtomicRMWInst::Xchg: nv = v; break;
                default: throw EngineError("atomicrmw op");
                }
                store(s, p, nv);
                setReg(s, &I, old);
                break;
            }
            case Instruction::AtomicCmpXchg: {
                auto& cx = cast<AtomicCmpXchgInst>(I);
                Val p = op(s, cx.getPointerOperand()), cmp = op(s, cx.getCompareOperand()), nv = op(s, cx.getNewValOperand());
                Val old = load(s, p, cmp.bits);
                Val eq = icmp(CmpInst::ICMP_EQ, old, cmp);
                if (eq.sym) throw EngineError("symbolic cmpxchg");
                if (eq.c) store(s, p, nv);
                Val r; r.agg = std::make_shared<std::vector<Val>>(std::vector<Val>{old, eq});
                setReg(s, &I, r);
                break;
            }
            case Instruction::Fence: break;
            case Instruction::Freeze: setReg(s, &I, op(s, I.getOperand(0))); break;
            case Instruction::ExtractValue: {
                auto& ev = cast<ExtractValueInst>(I);
                Val a = op(s, ev.getAggregateOperand());
                for (unsigned i : ev.indices()) { if (!a.agg) throw EngineError("extractvalue from a non-aggregate value"); Val t = a.agg->at(i); a = t; }
                setReg(s, &I, a);
                break;
            }
            case Instruction::InsertValue: {
                auto& iv = cast<InsertValueInst>(I);
                Val a = op(s, iv.getAggregateOperand()), v = op(s, iv.getInsertedValueOperand());
                std::function<Val(Val, ArrayRef<unsigned>)> ins = [&](Val agg, ArrayRef<unsigned> idx) {
                    if (idx.empty()) return v;
                    Val r; r.agg = std::make_shared<std::vector<Val>>(*agg.agg);
                    (*r.agg)[idx[0]] = ins((*agg.agg)[idx[0]], idx.drop_front());
                    return r;
                };
                setReg(s, &I, ins(a, iv.getIndices()));
                break;
            }
            case Instruction::LandingPad: throw EngineError("landingpad reached by fallthrough");
            case Instruction::Resume: {
                releaseAllocas(s, f);
                CallBase* cs = f.callsite;
                // continue unwinding in the caller, starting at its call site
                s.stack.pop_back();
                if (s.stack.empty()) return uncaught(s);
                // emulate: the caller's site instruction is cs
                {
                    auto* inv = dyn_cast_or_null<InvokeInst>(cs);
                    bool landed = false;
                    if (inv) {
                        LandingPadInst* lp = inv->getLandingPadInst();
                        int sel = -1;
                        for (unsigned i = 0; i < lp->getNumClauses(); i++) { Val ti = constVal(s, lp->getClause(i)); if (isA(s, s.inflight.tinfo, ti.c)) { sel = typeIdFor(ti.c); break; } }
                        if (sel >= 0 || lp->isCleanup()) {
                            if (sel < 0) sel = 0;
                            jump(s, inv->getUnwindDest());
                            Frame& fr = s.stack.back();
                            Val r; r.agg = std::make_shared<std::vector<Val>>(std::vector<Val>{Val(64, s.inflight.obj), Val(32, (uint64_t)sel)});
                            setReg(s, &*fr.it, r); ++fr.it; landed = true;
                        }
                    }
                    if (!landed && !unwind(s, false)) return uncaught(s);
                }
                break;
            }
            case Instruction::UIToFP: case Instruction::SIToFP: case Instruction::FPToUI: case Instruction::FPToSI:
            case Instruction::FPExt: case Instruction::FPTrunc: {
                Val a = op(s, I.getOperand(0));
                bool srcD = I.getOperand(0)->getType()->isDoubleTy() || I.getOperand(0)->getType()->isX86_FP80Ty(), dstD = I.getType()->isDoubleTy() || I.getType()->isX86_FP80Ty();
                if (a.sym && (I.getOpcode() == Instruction::FPExt || I.getOpcode() == Instruction::FPTrunc) && srcD && dstD) { setReg(s, &I, a); break; }
                if (a.sym) {
                    // conversions in Z3's FP theory: to integer rounds toward zero (C semantics; out-of-range is undefined in C, here whatever Z3 picks),
                    // from integer and between formats round to nearest even
                    z3::sort sfs = srcD ? ZC.fpa_sort(11, 53) : ZC.fpa_sort(8, 24), dfs = dstD ? ZC.fpa_sort(11, 53) : ZC.fpa_sort(8, 24);
                    z3::expr rne(ZC, Z3_mk_fpa_round_nearest_ties_to_even(ZC)), rtz(ZC, Z3_mk_fpa_round_toward_zero(ZC));   // held by expr objects: a bare Z3_ast has no reference
                    unsigned ib = I.getType()->isIntegerTy() ? I.getType()->getIntegerBitWidth() : 0;
                    z3::expr r(ZC);
                    switch (I.getOpcode()) {
                    case Instruction::FPToSI: case Instruction::FPToUI: {
                        // out of range is undefined in C; the model follows what x86-64 code from gcc / clang does (cvttsd2si: "integer indefinite"), so that a
                        // counterexample replays natively: signed 32-bit results come from the 32-bit instruction, everything else from the 64-bit one, truncated
                        z3::expr x = a.ex().mk_from_ieee_bv(sfs);
                        if (!srcD) x = z3::expr(ZC, Z3_mk_fpa_to_fp_float(ZC, rne, x, ZC.fpa_sort(11, 53)));
                        bool s32 = I.getOpcode() == Instruction::FPToSI && ib <= 32;
                        unsigned w = s32 ? 32 : 64;
                        double lim = s32 ? 2147483648.0 : 9223372036854775808.0;
                        z3::expr lo = ZC.fpa_val(-lim), hi = ZC.fpa_val(lim);
                        z3::expr inrange = !x.mk_is_nan() && x >= lo && x < hi;
                        z3::expr conv(ZC, Z3_mk_fpa_to_sbv(ZC, rtz, x, w));
                        z3::expr indef = ZC.bv_val((uint64_t)(s32 ? 0x80000000ULL : 0x8000000000000000ULL), w);
                        z3::expr full = z3::ite(inrange, conv, indef);
                        r = ib < w ? full.extract(ib - 1, 0) : full;
                        setReg(s, &I, mkSym(ib, r));
                        break; }
                    case Instruction::SIToFP: r = z3::expr(ZC, Z3_mk_fpa_to_fp_signed(ZC, rne, a.ex(), dfs)); setReg(s, &I, mkSym(dstD ? 64 : 32, z3::expr(ZC, Z3_mk_fpa_to_ieee_bv(ZC, r)))); break;
                    case Instruction::UIToFP: r = z3::expr(ZC, Z3_mk_fpa_to_fp_unsigned(ZC, rne, a.ex(), dfs)); setReg(s, &I, mkSym(dstD ? 64 : 32, z3::expr(ZC, Z3_mk_fpa_to_ieee_bv(ZC, r)))); break;
                    default: r = z3::expr(ZC, Z3_mk_fpa_to_fp_float(ZC, rne, a.ex().mk_from_ieee_bv(sfs), dfs)); setReg(s, &I, mkSym(dstD ? 64 : 32, z3::expr(ZC, Z3_mk_fpa_to_ieee_bv(ZC, r)))); break;
                    }
                    break;
                }
                auto asD = [&](const Val& v, bool isD) { if (isD) { double d; memcpy(&d, &v.c, 8); return d; } float f; uint32_t u = v.c; memcpy(&f, &u, 4); return (double)f; };
                auto fromD = [&](double d, bool isD) { if (isD) { uint64_t u; memcpy(&u, &d, 8); return Val(64, u); } float f = (float)d; uint32_t u; memcpy(&u, &f, 4); return Val(32, u); };
                switch (I.getOpcode()) {
                case Instruction::UIToFP: setReg(s, &I, fromD((double)a.c, dstD)); break;
                case Instruction::SIToFP: setReg(s, &I, fromD((double)a.sext(), dstD)); break;
                case Instruction::FPToUI: setReg(s, &I, Val(I.getType()->getIntegerBitWidth(), (uint64_t)asD(a, srcD))); break;
                case Instruction::FPToSI: setReg(s, &I, Val(I.getType()->getIntegerBitWidth(), (uint64_t)(int64_t)asD(a, srcD))); break;
                default: setReg(s, &I, fromD(asD(a, srcD), dstD)); break;
                }
                break;
            }
            case Instruction::FAdd: case Instruction::FSub: case Instruction::FMul: case Instruction::FDiv: case Instruction::FCmp: case Instruction::FNeg: {
                Val a = op(s, I.getOperand(0)), b = I.getNumOperands() > 1 ? op(s, I.getOperand(1)) : Val(64, 0);
                if ((a.sym || b.sym) && I.getOpcode() == Instruction::FCmp) {
                    bool dbl = I.getOperand(0)->getType()->isDoubleTy();
                    z3::sort fs = dbl ? ZC.fpa_sort(11, 53) : ZC.fpa_sort(8, 24);
                    z3::expr x = a.ex().mk_from_ieee_bv(fs), y = b.ex().mk_from_ieee_bv(fs);
                    z3::expr un = x.mk_is_nan() || y.mk_is_nan(), r(ZC);
                    switch (cast<FCmpInst>(I).getPredicate()) {
                    case CmpInst::FCMP_OEQ: r = z3::fp_eq(x, y); break; case CmpInst::FCMP_OGT: r = x > y; break; case CmpInst::FCMP_OGE: r = x >= y; break;
                    case CmpInst::FCMP_OLT: r = x < y; break; case CmpInst::FCMP_OLE: r = x <= y; break; case CmpInst::FCMP_ONE: r = !un && !z3::fp_eq(x, y); break;
                    case CmpInst::FCMP_ORD: r = !un; break; case CmpInst::FCMP_UNO: r = un; break;
                    case CmpInst::FCMP_UEQ: r = un || z3::fp_eq(x, y); break; case CmpInst::FCMP_UGT: r = un || x > y; break; case CmpInst::FCMP_UGE: r = un || x >= y; break;
                    case CmpInst::FCMP_ULT: r = un || x < y; break; case CmpInst::FCMP_ULE: r = un || x <= y; break; case CmpInst::FCMP_UNE: r = un || !z3::fp_eq(x, y); break;
                    case CmpInst::FCMP_TRUE: r = ZC.bool_val(true); break; case CmpInst::FCMP_FALSE: r = ZC.bool_val(false); break;
                    default: throw EngineError("fcmp pred");
                    }
                    setReg(s, &I, fromBool(r));
                    break;
                }
                if ((a.sym || b.sym) && I.getOpcode() == Instruction::FNeg) { setReg(s, &I, mkSym(a.bits, a.ex() ^ ZC.bv_val((uint64_t)(1ULL << (a.bits - 1)), a.bits))); break; }
                if (a.sym || b.sym) {
                    // IEEE-754 arithmetic in Z3's floating-point theory, round to nearest even (the mode the code under test runs in)
                    bool dbl = I.getOperand(0)->getType()->isDoubleTy();
                    z3::sort fs = dbl ? ZC.fpa_sort(11, 53) : ZC.fpa_sort(8, 24);
                    z3::expr x = a.ex().mk_from_ieee_bv(fs), y = b.ex().mk_from_ieee_bv(fs), rne = ZC.fpa_rounding_mode(), r(ZC);
                    z3::expr m(ZC, Z3_mk_fpa_round_nearest_ties_to_even(ZC));
                    switch (I.getOpcode()) {
                    case Instruction::FAdd: r = z3::expr(ZC, Z3_mk_fpa_add(ZC, m, x, y)); break;
                    case Instruction::FSub: r = z3::expr(ZC, Z3_mk_fpa_sub(ZC, m, x, y)); break;
                    case Instruction::FMul: r = z3::expr(ZC, Z3_mk_fpa_mul(ZC, m, x, y)); break;
                    default: r = z3::expr(ZC, Z3_mk_fpa_div(ZC, m, x, y)); break;
                    }
                    (void)rne;
                    setReg(s, &I, mkSym(a.bits, z3::expr(ZC, Z3_mk_fpa_to_ieee_bv(ZC, r))));
                    break;
                }
                bool isD = I.getOperand(0)->getType()->isDoubleTy();
                auto asD = [&](const Val& v) { if (isD) { double d; memcpy(&d, &v.c, 8); return d; } float f; uint32_t u = v.c; memcpy(&f, &u, 4); return (double)f; };
                auto fromD = [&](double d) { if (isD) { uint64_t u; memcpy(&u, &d, 8); return Val(64, u); } float f = (float)d; uint32_t u; memcpy(&u, &f, 4); return Val(32, u); };
                double x = asD(a), y = asD(b);
                switch (I.getOpcode()) {
                case Instruction::FAdd: setReg(s, &I, fromD(x + y)); break; case Instruction::FSub: setReg(s, &I, fromD(x - y)); break;
                case Instruction::FMul: setReg(s, &I, fromD(x * y)); break; case Instruction::FDiv: setReg(s, &I, fromD(x / y)); break;
                case Instruction::FNeg: setReg(s, &I, fromD(-x)); break;
                default: {
                    bool r, un = (x != x) || (y != y);
                    switch (cast<FCmpInst>(I).getPredicate()) {
                    case CmpInst::FCMP_OEQ: r = !un && x == y; break; case CmpInst::FCMP_OGT: r = !un && x > y; break; case CmpInst::FCMP_OGE: r = !un && x >= y; break;
                    case CmpInst::FCMP_OLT: r = !un && x < y; break; case CmpInst::FCMP_OLE: r = !un && x <= y; break; case CmpInst::FCMP_ONE: r = !un && x != y; break;
                    case CmpInst::FCMP_ORD: r = !un; break; case CmpInst::FCMP_UNO: r = un; break;
                    case CmpInst::FCMP_UEQ: r = un || x == y; break; case CmpInst::FCMP_UGT: r = un || x > y; break; case CmpInst::FCMP_UGE: r = un || x >= y; break;
                    case CmpInst::FCMP_ULT: r = un || x < y; break; case CmpInst::FCMP_ULE: r = un || x <= y; break; case CmpInst::FCMP_UNE: r = un || x != y; break;
                    default: throw EngineError("fcmp pred");
                    }
                    setReg(s, &I, Val(1, r));
                }
                }
                break;
            }
            default:
                if (I.isBinaryOp()) {
                    if (I.getType()->isIntegerTy()) { setReg(s, &I, binop(I.getOpcode(), op(s, I.getOperand(0)), op(s, I.getOperand(1)), s)); break; }
                }
                throw EngineError(std::string("opcode ") + I.getOpcodeName());
            }
        }
    }
};

int main(int argc, char** argv)
{
    if (argc < 3) { std::cerr << "usage: llsx file.bc entry [--json out] [--jobs n] [--timeout-ms n] [--max-paths n] [--max-steps n] [--time-limit s] [--inputs file] [a=b replace] [-v]\n"; return 2; }
    LLVMContext C; SMDiagnostic E;
    auto M = parseIRFile(argv[1], E, C);
    if (!M) { E.print("llsx", errs()); return 2; }
    Function* F = M->getFunction(argv[2]);
    if (!F) { std::cerr << "no entry " << argv[2] << "\n"; return 2; }
    Exec ex(*M);
    ex.jsonPath = "/dev/null";
    for (int i = 3; i < argc; i++) {
        std::string a = argv[i];
        auto next = [&]() { return std::string(i + 1 < argc ? argv[++i] : ""); };
        if (a == "-v") ex.verbose = true;
        else if (a == "--json") ex.jsonPath = next();
        else if (a == "--jobs") ex.jobs = atoi(next().c_str());
        else if (a == "--timeout-ms") ex.timeoutMs = atoi(next().c_str());
        else if (a == "--external") ex.externalCmd = next();
        else if (a == "--max-paths") ex.maxPaths = strtoull(next().c_str(), 0, 10);
        else if (a == "--max-steps") ex.maxSteps = strtoull(next().c_str(), 0, 10);
        else if (a == "--time-limit") ex.deadline = Exec::now() + atof(next().c_str());
        else if (a == "--inputs") {
            ex.concreteMode = true;
            std::ifstream in(next()); std::string n; uint64_t v;
            while (in >> n >> v) ex.concreteInputs[n] = v;
        } else { auto p = a.find('='); if (p != std::string::npos) ex.replace[a.substr(0, p)] = a.substr(p + 1); }
    }
    auto t0 = std::chrono::steady_clock::now();
    try { ex.run(F); } catch (z3::exception& e) { std::cerr << "z3: " << e.msg() << "\n"; return 2; } catch (EngineError& e) { std::cerr << "engine: " << e.what() << "\n"; return 2; }
    double wall = std::chrono::duration<double>(std::chrono::steady_clock::now() - t0).count();
    std::cout << "llsx: parts=" << ex.nKids + 1 << " childfail=" << ex.nChildFail << " wall_s=" << wall << " main_paths=" << ex.st.paths << " main_violations=" << ex.viols.size() << " main_errors=" << ex.st.errors << "\n";
    for (auto& e : ex.errors) std::cout << "ERROR " << e << "\n";
    return ex.nChildFail ? 3 : 0;
}
