// Native implementation of the harness API: replays a solver model (or seed-derived inputs) on the g++ build of the real library.
#include "vf.h"
#include <cstdio>
#include <cstdlib>
#include <cstring>
#include <cstdint>
#include <map>
#include <string>
#include <exception>
#include <dlfcn.h>
static std::map<std::string, uint64_t> inputs;
static bool randomMode = false; static uint64_t rng = 88172645463325252ULL; static FILE* rec = nullptr;
static int nin = 0, nfail = 0;
static uint64_t rnd() { rng ^= rng << 13; rng ^= rng >> 7; rng ^= rng << 17; return rng; }
static uint64_t get(const char* name, unsigned bits, bool ranged, long lo, long hi)
{
    if (name[0] == '!') name++;
    std::string n = std::string(name) + "#" + std::to_string(nin++);
    uint64_t v;
    if (randomMode) {
        if (ranged) v = (uint64_t)(lo + (long)(rnd() % (uint64_t)(hi - lo + 1)));
        else { uint64_t r = rnd(); switch (r & 7) { case 0: v = 0; break; case 1: v = 1; break; case 2: v = ~0ULL; break; case 3: v = (rnd() & 0xff); break; default: v = rnd(); } }
        if (bits < 64) v &= (1ULL << bits) - 1;
        if (rec) fprintf(rec, "%s %llu\n", n.c_str(), (unsigned long long)v);
    } else {
        auto it = inputs.find(n);
        if (it == inputs.end()) it = inputs.find(name);   // developer convenience: value given by bare name
        v = it == inputs.end() ? (ranged ? (uint64_t)lo : 0) : it->second;
        if (ranged) { long sv = (long)(int32_t)v; if (sv < lo || sv > hi) v = (uint64_t)lo; }
    }
    return v;
}
extern "C" {
int vf_int(const char* n) { return (int)(uint32_t)get(n, 32, false, 0, 0); }
unsigned vf_uint(const char* n) { return (uint32_t)get(n, 32, false, 0, 0); }
long vf_long(const char* n) { return (long)get(n, 64, false, 0, 0); }
signed char vf_i8(const char* n) { return (signed char)(uint8_t)get(n, 8, false, 0, 0); }
unsigned char vf_u8(const char* n) { return (uint8_t)get(n, 8, false, 0, 0); }
short vf_i16(const char* n) { return (short)(uint16_t)get(n, 16, false, 0, 0); }
double vf_double(const char* n) { uint64_t u = get(n, 64, false, 0, 0); double d; memcpy(&d, &u, 8); return d; }
int vf_range(const char* n, int lo, int hi) { if (hi < lo) { printf("end assume-false\nNOTES-END\n"); fflush(stdout); _Exit(0); } return (int)(int32_t)get(n, 32, true, lo, hi); }
int vf_pick(const char* n, int k) { return vf_range(n, 0, k - 1); }
int vf_bool(const char* n) { return vf_range(n, 0, 1); }
void vf_assume(int c) { if (!c) { printf("end assume-false\nNOTES-END\n"); fflush(stdout); _Exit(0); } }
void vf_assert(int c, const char* id) { printf("assert %s %s\n", id, c ? "ok" : "FAIL"); if (!c) nfail++; }
void vf_reach(const char*) {}
void vf_note(const char* t) { printf("%s\n", t); }
void vf_notei(const char* t, long v) { printf("%s=%ld\n", t, v); }
void vf_budget(long) {}
int vf_is_symbolic(void) { return 0; }
long vf_concretize(long v) { return v; }
}
#ifndef NOMAIN
int main(int argc, char** argv)
{
    if (argc < 2) { fprintf(stderr, "usage: harness entry [--inputs file | --random seed --record file]\n"); return 2; }
    for (int i = 2; i < argc; i++) {
        if (!strcmp(argv[i], "--inputs") && i + 1 < argc) { FILE* f = fopen(argv[++i], "r"); if (!f) return 2; char nm[256]; unsigned long long v; while (fscanf(f, "%255s %llu", nm, &v) == 2) inputs[nm] = v; fclose(f); }
        else if (!strcmp(argv[i], "--random") && i + 1 < argc) { randomMode = true; rng ^= strtoull(argv[++i], 0, 10) * 0x9E3779B97F4A7C15ULL; for (int k = 0; k < 8; k++) rnd(); }
        else if (!strcmp(argv[i], "--record") && i + 1 < argc) { rec = fopen(argv[++i], "w"); if (rec) setvbuf(rec, nullptr, _IOLBF, 0); }
    }
    void (*fn)() = (void (*)())dlsym(RTLD_DEFAULT, argv[1]);
    if (!fn) { fprintf(stderr, "no entry %s\n", argv[1]); return 2; }
    setvbuf(stdout, nullptr, _IOLBF, 0);
    printf("NOTES-BEGIN\n");
    const char* why = "returned";
    try { fn(); } catch (std::exception& e) { why = "uncaught std::exception"; } catch (...) { printf("fault uncaught non-std exception\n"); why = "fault"; }
    printf("end %s\nNOTES-END\n", why);
    if (rec) fclose(rec);
    return nfail ? 1 : 0;
}
#endif
