// vfrt: minimal out-of-line libstdc++ pieces, executed as IR by the engine (layout-compatible with libstdc++ 12, x86-64)
#include <cstddef>
#include <cstring>
#include <cstdlib>
extern "C" {
struct Str { char* p; size_t n; union { char buf[16]; size_t cap; }; };
static inline bool is_local(const Str* s) { return s->p == s->buf; }
static inline size_t capacity(const Str* s) { return is_local(s) ? 15 : s->cap; }
static void str_reserve(Str* s, size_t want)
{
    if (want <= capacity(s)) return;
    size_t nc = capacity(s) * 2; if (nc < want) nc = want;
    char* np = (char*)malloc(nc + 1);
    memcpy(np, s->p, s->n + 1);
    if (!is_local(s)) free(s->p);
    s->p = np; s->cap = nc;
}
static void str_init(Str* s, const char* d, size_t n)
{
    s->p = s->buf; s->n = 0; s->buf[0] = 0;
    str_reserve(s, n);
    memcpy(s->p, d, n); s->p[n] = 0; s->n = n;
}
// basic_string(const basic_string&)
void _ZNSt7__cxx1112basic_stringIcSt11char_traitsIcESaIcEEC1ERKS4_(Str* s, const Str* o) { str_init(s, o->p, o->n); }
void _ZNSt7__cxx1112basic_stringIcSt11char_traitsIcESaIcEEC2ERKS4_(Str* s, const Str* o) { str_init(s, o->p, o->n); }
// basic_string(const char*, const allocator&)
void _ZNSt7__cxx1112basic_stringIcSt11char_traitsIcESaIcEEC1EPKcRKS3_(Str* s, const char* c, const void*) { str_init(s, c, strlen(c)); }
void _ZNSt7__cxx1112basic_stringIcSt11char_traitsIcESaIcEEC2EPKcRKS3_(Str* s, const char* c, const void*) { str_init(s, c, strlen(c)); }
// ~basic_string
void _ZNSt7__cxx1112basic_stringIcSt11char_traitsIcESaIcEED1Ev(Str* s) { if (!is_local(s)) free(s->p); }
void _ZNSt7__cxx1112basic_stringIcSt11char_traitsIcESaIcEED2Ev(Str* s) { if (!is_local(s)) free(s->p); }
// _M_create(size_t& cap, size_t old)
char* _ZNSt7__cxx1112basic_stringIcSt11char_traitsIcESaIcEE9_M_createERmm(Str*, size_t* cap, size_t old)
{ if (*cap > old && *cap < 2 * old) *cap = 2 * old; return (char*)malloc(*cap + 1); }
// _M_assign(const basic_string&)
void _ZNSt7__cxx1112basic_stringIcSt11char_traitsIcESaIcEE9_M_assignERKS4_(Str* s, const Str* o)
{ if (s == o) return; str_reserve(s, o->n); memcpy(s->p, o->p, o->n); s->p[o->n] = 0; s->n = o->n; }
// _M_append(const char*, size_t)
Str* _ZNSt7__cxx1112basic_stringIcSt11char_traitsIcESaIcEE9_M_appendEPKcm(Str* s, const char* d, size_t n)
{ str_reserve(s, s->n + n); memcpy(s->p + s->n, d, n); s->n += n; s->p[s->n] = 0; return s; }
}
// ---------------------------------------------------------------- more string members
extern "C" {
// _M_construct(size_t n, char c)
void _ZNSt7__cxx1112basic_stringIcSt11char_traitsIcESaIcEE12_M_constructEmc(Str* s, size_t n, char c)
{ s->p = s->buf; s->n = 0; str_reserve(s, n); memset(s->p, c, n); s->p[n] = 0; s->n = n; }
// _M_replace(pos, len1, s, len2)
Str* _ZNSt7__cxx1112basic_stringIcSt11char_traitsIcESaIcEE10_M_replaceEmmPKcm(Str* s, size_t pos, size_t l1, const char* d, size_t l2)
{
    size_t nn = s->n - l1 + l2;
    char* tmp = (char*)malloc(nn + 1);
    memcpy(tmp, s->p, pos); memcpy(tmp + pos, d, l2); memcpy(tmp + pos + l2, s->p + pos + l1, s->n - pos - l1); tmp[nn] = 0;
    str_reserve(s, nn); memcpy(s->p, tmp, nn + 1); s->n = nn; free(tmp); return s;
}
Str* _ZNSt7__cxx1112basic_stringIcSt11char_traitsIcESaIcEE14_M_replace_auxEmmmc(Str* s, size_t pos, size_t l1, size_t n2, char c)
{ char* t = (char*)malloc(n2 + 1); memset(t, c, n2); t[n2] = 0; _ZNSt7__cxx1112basic_stringIcSt11char_traitsIcESaIcEE10_M_replaceEmmPKcm(s, pos, l1, t, n2); free(t); return s; }
void _ZNSt7__cxx1112basic_stringIcSt11char_traitsIcESaIcEE9_M_mutateEmmPKcm(Str* s, size_t pos, size_t l1, const char* d, size_t l2)
{
    /* as libstdc++: reallocate for size - l1 + l2 characters, copy head, (optional) insert, tail; the caller sets the length */
    size_t how_much = s->n - pos - l1, want = s->n + l2 - l1, oc = capacity(s), nc = want;
    if (nc > oc && nc < 2 * oc) nc = 2 * oc;
    char* r = (char*)malloc(nc + 1);
    if (pos) memcpy(r, s->p, pos);
    if (d && l2) memcpy(r + pos, d, l2);
    if (how_much) memcpy(r + pos + l2, s->p + pos + l1, how_much);
    if (!is_local(s)) free(s->p);
    s->p = r; s->cap = nc;
}
int _ZNKSt7__cxx1112basic_stringIcSt11char_traitsIcESaIcEE7compareEPKc(const Str* s, const char* c)
{ size_t m = strlen(c), k = s->n < m ? s->n : m; int r = memcmp(s->p, c, k); if (r) return r; return s->n < m ? -1 : s->n > m ? 1 : 0; }
size_t _ZNKSt7__cxx1112basic_stringIcSt11char_traitsIcESaIcEE4findEcm(const Str* s, char c, size_t pos)
{ for (size_t i = pos; i < s->n; i++) if (s->p[i] == c) return i; return (size_t)-1; }
size_t _ZNKSt7__cxx1112basic_stringIcSt11char_traitsIcESaIcEE4findEPKcmm(const Str* s, const char* c, size_t pos, size_t n)
{ if (n == 0) return pos <= s->n ? pos : (size_t)-1; if (pos >= s->n) return (size_t)-1; for (size_t i = pos; i + n <= s->n; i++) if (memcmp(s->p + i, c, n) == 0) return i; return (size_t)-1; }
size_t _ZNKSt7__cxx1112basic_stringIcSt11char_traitsIcESaIcEE5rfindEcm(const Str* s, char c, size_t pos)
{ if (!s->n) return (size_t)-1; size_t i = s->n - 1; if (pos < i) i = pos; for (;; i--) { if (s->p[i] == c) return i; if (!i) break; } return (size_t)-1; }
int _ZNKSt7__cxx1112basic_stringIcSt11char_traitsIcESaIcEE7compareEmmRKS4_(const Str* s, size_t pos, size_t n, const Str* o)
{ if (pos > s->n) abort(); size_t rl = s->n - pos; if (n < rl) rl = n; size_t k = rl < o->n ? rl : o->n; int r = k ? memcmp(s->p + pos, o->p, k) : 0; if (r) return r; return rl < o->n ? -1 : rl > o->n ? 1 : 0; }
int _ZNKSt7__cxx1112basic_stringIcSt11char_traitsIcESaIcEE7compareEmmPKc(const Str* s, size_t pos, size_t n, const char* c)
{ if (pos > s->n) abort(); size_t rl = s->n - pos; if (n < rl) rl = n; size_t m = strlen(c), k = rl < m ? rl : m; int r = k ? memcmp(s->p + pos, c, k) : 0; if (r) return r; return rl < m ? -1 : rl > m ? 1 : 0; }
int _ZNKSt7__cxx1112basic_stringIcSt11char_traitsIcESaIcEE7compareERKS4_(const Str* s, const Str* o)
{ size_t k = s->n < o->n ? s->n : o->n; int r = k ? memcmp(s->p, o->p, k) : 0; if (r) return r; return s->n < o->n ? -1 : s->n > o->n ? 1 : 0; }
void _ZNSt7__cxx1112basic_stringIcSt11char_traitsIcESaIcEE8_M_eraseEmm(Str* s, size_t pos, size_t n)
{ size_t tail = s->n - pos - n; if (tail && n) memmove(s->p + pos, s->p + pos + n, tail); s->n -= n; s->p[s->n] = 0; }
Str* _ZNSt7__cxx1112basic_stringIcSt11char_traitsIcESaIcEEaSEPKc(Str* s, const char* c)
{ size_t n = strlen(c); str_reserve(s, n); memcpy(s->p, c, n + 1); s->n = n; return s; }
Str* _ZNSt7__cxx1112basic_stringIcSt11char_traitsIcESaIcEEaSEOS4_(Str* s, Str* o)
{ if (s == o) return s; str_reserve(s, o->n); memcpy(s->p, o->p, o->n + 1); s->n = o->n; o->n = 0; o->p[0] = 0; return s; }
void _ZNSt7__cxx1112basic_stringIcSt11char_traitsIcESaIcEE7reserveEm(Str* s, size_t n) { str_reserve(s, n); }

// ---------------------------------------------------------------- exceptions from <stdexcept>
struct LogicErr { void* vptr; char* msg; };
static char* dupmsg(const char* s) { size_t n = strlen(s); char* r = (char*)malloc(n + 1); memcpy(r, s, n + 1); return r; }
// the objects get a vtable of their own (slots: offset-to-top, typeinfo, D1, D0, what), so that a catch by std::exception& can call what()
void _ZNSt11logic_errorD2Ev(LogicErr*) {}
void _ZNSt11logic_errorD1Ev(LogicErr*) {}
void _ZNSt11logic_errorD0Ev(LogicErr* e) { free(e); }
const char* _ZNKSt11logic_error4whatEv(const LogicErr* e) { return e->msg; }
void _ZNSt13runtime_errorD2Ev(LogicErr*) {}
void _ZNSt13runtime_errorD1Ev(LogicErr*) {}
void _ZNSt13runtime_errorD0Ev(LogicErr* e) { free(e); }
const char* _ZNKSt13runtime_error4whatEv(const LogicErr* e) { return e->msg; }
extern const char vf_ti_logic_error asm("_ZTISt11logic_error");
extern const char vf_ti_runtime_error asm("_ZTISt13runtime_error");
const void* vf_vt_logic_error[5] asm("_ZTVSt11logic_error") = {0, &vf_ti_logic_error, (const void*)&_ZNSt11logic_errorD1Ev, (const void*)&_ZNSt11logic_errorD0Ev, (const void*)&_ZNKSt11logic_error4whatEv};
const void* vf_vt_runtime_error[5] asm("_ZTVSt13runtime_error") = {0, &vf_ti_runtime_error, (const void*)&_ZNSt13runtime_errorD1Ev, (const void*)&_ZNSt13runtime_errorD0Ev, (const void*)&_ZNKSt13runtime_error4whatEv};
static void le_init(LogicErr* e, const char* m) { e->vptr = (void*)&vf_vt_logic_error[2]; e->msg = dupmsg(m); }
static void re_init(LogicErr* e, const char* m) { e->vptr = (void*)&vf_vt_runtime_error[2]; e->msg = dupmsg(m); }
void _ZNSt11logic_errorC2EPKc(LogicErr* e, const char* m) { le_init(e, m); }
void _ZNSt11logic_errorC1EPKc(LogicErr* e, const char* m) { le_init(e, m); }
void _ZNSt11logic_errorC2ERKNSt7__cxx1112basic_stringIcSt11char_traitsIcESaIcEEE(LogicErr* e, const Str* m) { le_init(e, m->p); }
void _ZNSt11logic_errorC1ERKNSt7__cxx1112basic_stringIcSt11char_traitsIcESaIcEEE(LogicErr* e, const Str* m) { le_init(e, m->p); }
void _ZNSt11logic_errorC2ERKS_(LogicErr* e, const LogicErr* o) { le_init(e, o->msg); }
void _ZNSt13runtime_errorC2EPKc(LogicErr* e, const char* m) { re_init(e, m); }
void _ZNSt13runtime_errorC1EPKc(LogicErr* e, const char* m) { re_init(e, m); }
void _ZNSt13runtime_errorC2ERKNSt7__cxx1112basic_stringIcSt11char_traitsIcESaIcEEE(LogicErr* e, const Str* m) { re_init(e, m->p); }
void _ZNSt13runtime_errorC1ERKNSt7__cxx1112basic_stringIcSt11char_traitsIcESaIcEEE(LogicErr* e, const Str* m) { re_init(e, m->p); }
void _ZNSt9exceptionD2Ev(void*) {}
const char* _ZNKSt9exception4whatEv(const void*) { return "std::exception"; }

// ---------------------------------------------------------------- red-black tree helpers as a plain BST
struct RbNode { int color; RbNode* parent; RbNode* left; RbNode* right; };
void _ZSt29_Rb_tree_insert_and_rebalancebPSt18_Rb_tree_node_baseS0_RS_(bool insert_left, RbNode* x, RbNode* p, RbNode* header)
{
    x->parent = p; x->left = 0; x->right = 0; x->color = 1; /* all real nodes black, header stays red */
    if (insert_left) {
        p->left = x;
        if (p == header) { header->parent = x; header->right = x; }
        else if (p == header->left) header->left = x;
    } else {
        p->right = x;
        if (p == header->right) header->right = x;
    }
}
RbNode* _ZSt18_Rb_tree_incrementPSt18_Rb_tree_node_base(RbNode* x)
{
    if (x->right) { x = x->right; while (x->left) x = x->left; }
    else { RbNode* y = x->parent; while (x == y->right) { x = y; y = y->parent; } if (x->right != y) x = y; }
    return x;
}
const RbNode* _ZSt18_Rb_tree_incrementPKSt18_Rb_tree_node_base(const RbNode* x) { return _ZSt18_Rb_tree_incrementPSt18_Rb_tree_node_base((RbNode*)x); }
RbNode* _ZSt18_Rb_tree_decrementPSt18_Rb_tree_node_base(RbNode* x)
{
    if (x->color == 0 && x->parent->parent == x) return x->right; /* header: go to rightmost */
    if (x->left) { RbNode* y = x->left; while (y->right) y = y->right; return y; }
    RbNode* y = x->parent; while (x == y->left) { x = y; y = y->parent; } return y;
}
RbNode* _ZSt28_Rb_tree_rebalance_for_erasePSt18_Rb_tree_node_baseRS_(RbNode* z, RbNode* header)
{
    RbNode*& root = header->parent; RbNode*& leftmost = header->left; RbNode*& rightmost = header->right;
    RbNode* y = z; RbNode* x = 0;
    if (!y->left) x = y->right; else if (!y->right) x = y->left; else { y = y->right; while (y->left) y = y->left; x = y->right; }
    if (y != z) {
        z->left->parent = y; y->left = z->left;
        if (y != z->right) { if (x) x->parent = y->parent; y->parent->left = x; y->right = z->right; z->right->parent = y; }
        if (root == z) root = y; else if (z->parent->left == z) z->parent->left = y; else z->parent->right = y;
        y->parent = z->parent;
    } else {
        if (x) x->parent = y->parent;
        if (root == z) root = x; else if (z->parent->left == z) z->parent->left = x; else z->parent->right = x;
        if (leftmost == z) { if (!z->right) leftmost = z->parent; else { RbNode* m = x; while (m->left) m = m->left; leftmost = m; } }
        if (rightmost == z) { if (!z->left) rightmost = z->parent; else { RbNode* m = x; while (m->right) m = m->right; rightmost = m; } }
    }
    return z;
}
// ---------------------------------------------------------------- list hooks
struct LNode { LNode* next; LNode* prev; };
void _ZNSt8__detail15_List_node_base7_M_hookEPS0_(LNode* self, LNode* pos) { self->next = pos; self->prev = pos->prev; pos->prev->next = self; pos->prev = self; }
void _ZNSt8__detail15_List_node_base9_M_unhookEv(LNode* self) { self->next->prev = self->prev; self->prev->next = self->next; }
// ---------------------------------------------------------------- hashing
size_t _ZSt11_Hash_bytesPKvmm(const void* p, size_t n, size_t seed)
{ size_t h = seed ^ 14695981039346656037ULL; const unsigned char* c = (const unsigned char*)p; for (size_t i = 0; i < n; i++) { h ^= c[i]; h *= 1099511628211ULL; } return h; }
struct RehashPolicy { float max_load; size_t next_resize; };
size_t _ZNKSt8__detail20_Prime_rehash_policy11_M_next_bktEm(RehashPolicy* p, size_t n)
{ static const size_t primes[] = {2, 5, 11, 23, 47, 97, 199, 409, 823, 1741, 3469, 6949, 14033}; size_t r = 14033; for (size_t q : primes) if (q >= n) { r = q; break; } p->next_resize = (size_t)(r * (double)p->max_load); return r; }
struct BoolSize { bool b; size_t s; };
BoolSize _ZNKSt8__detail20_Prime_rehash_policy14_M_need_rehashEmmm(RehashPolicy* p, size_t nb, size_t ne, size_t ni)
{
    if (ne + ni > p->next_resize) {
        double minb = (ne + ni) / (double)p->max_load;
        if (minb >= nb) { size_t g = nb * 2; if (g < (size_t)minb + 1) g = (size_t)minb + 1; return {true, _ZNKSt8__detail20_Prime_rehash_policy11_M_next_bktEm(p, g)}; }
        p->next_resize = (size_t)(nb * (double)p->max_load);
    }
    return {false, 0};
}
}
// ---------------------------------------------------------------- libc string scanning not modelled natively by the engine
extern "C" char* vf_strpbrk(const char* s, const char* accept) asm("strpbrk");
extern "C" char* vf_strpbrk(const char* s, const char* accept)
{ for (; *s; ++s) for (const char* a = accept; *a; ++a) if (*s == *a) return (char*)s; return 0; }
// ---------------------------------------------------------------- std::filesystem::path (only what StatementBuilder's ctor touches)
extern "C" {
struct FsPath { Str s; void* impl; };
void _ZNSt10filesystem7__cxx114path5_ListC1Ev(void** l) { *l = 0; }
void _ZNSt10filesystem7__cxx114path5_ListC1ERKS2_(void** l, void* const* o) { *l = *o; }
void _ZNKSt10filesystem7__cxx114path5_List13_Impl_deleterclEPNS2_5_ImplE(const void*, void*) {}
void _ZNSt10filesystem7__cxx114path14_M_split_cmptsEv(FsPath*) {}
void _ZNSt10filesystem12current_pathB5cxx11Ev(FsPath* ret) { str_init(&ret->s, "/", 1); ret->impl = 0; }
FsPath* _ZNSt10filesystem7__cxx114pathdVERKS1_(FsPath* p, const FsPath* o)
{ if (p->s.n && p->s.p[p->s.n - 1] != '/') _ZNSt7__cxx1112basic_stringIcSt11char_traitsIcESaIcEE9_M_appendEPKcm(&p->s, "/", 1); _ZNSt7__cxx1112basic_stringIcSt11char_traitsIcESaIcEE9_M_appendEPKcm(&p->s, o->s.p, o->s.n); return p; }
struct FsExt { const Str* str; size_t pos; };   // std::pair<const string_type*, size_t>
FsExt _ZNKSt10filesystem7__cxx114path17_M_find_extensionEv(const FsPath* p)
{
    const Str* s = &p->s; size_t start = 0;
    for (size_t i = 0; i < s->n; i++) if (s->p[i] == '/') start = i + 1;
    size_t len = s->n - start;
    if (len == 0) return FsExt{0, (size_t)-1};
    if ((len == 1 && s->p[start] == '.') || (len == 2 && s->p[start] == '.' && s->p[start + 1] == '.')) return FsExt{s, (size_t)-1};
    for (size_t i = s->n; i-- > start + 1;) if (s->p[i] == '.') return FsExt{s, i};
    return FsExt{s, (size_t)-1};
}

}
