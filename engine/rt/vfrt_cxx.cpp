#include <stdexcept>
namespace std {
void __throw_logic_error(const char* s) { throw logic_error(s); }
}
