// C++-level pieces of the support runtime (compiled to IR with the real libstdc++ headers)
#include <stdexcept>
#include <new>
#include <system_error>
#include <string>
namespace std {
void __throw_logic_error(const char* s) { throw logic_error(s); }
void __throw_out_of_range(const char* s) { throw out_of_range(s); }
void __throw_length_error(const char* s) { throw length_error(s); }
void __throw_invalid_argument(const char* s) { throw invalid_argument(s); }
void __throw_out_of_range_fmt(const char* s, ...) { throw out_of_range(s); }
void __throw_bad_alloc() { throw bad_alloc(); }
void __throw_bad_array_new_length() { throw bad_array_new_length(); }
}
// std::system_category(): a category object with the documented interface; message() gives a fixed text (strerror is not modelled)
namespace {
struct vf_system_category final : std::error_category {
    const char* name() const noexcept override { return "system"; }
    std::string message(int) const override { return "system error"; }
};
static vf_system_category vf_the_system_category;
}
namespace std { inline namespace _V2 {
const error_category& system_category() noexcept { return vf_the_system_category; }
const error_category& generic_category() noexcept { return vf_the_system_category; }
error_category::~error_category() = default;
error_condition error_category::default_error_condition(int i) const noexcept { return error_condition(i, *this); }
bool error_category::equivalent(int i, const error_condition& c) const noexcept { return default_error_condition(i) == c; }
bool error_category::equivalent(const error_code& c, int i) const noexcept { return *this == c.category() && c.value() == i; }
} }
namespace std {
system_error::~system_error() noexcept = default;
}
