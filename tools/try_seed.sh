#!/bin/bash
# try_seed.sh <seed> [tier] [harness...] : like run_seed.sh but on a private scratch worktree of /repo's HEAD (/tmp/repotest), so /repo stays untouched
S=$1; T=${2:-quick}; shift; shift
D=/verif/seeded/$S; P=$(python3 -c "import json;print(json.load(open('$D/meta.json'))['property'])")
W=${TRY_W:-/tmp/repotest}
[ -d $W ] || git -C /repo worktree add --detach $W HEAD >/dev/null 2>&1
git -C $W checkout -q --detach $(git -C /repo rev-parse HEAD) 2>/dev/null; git -C $W checkout -- . ; git -C $W apply $D/patch.diff || exit 2
cd /verif && VERIF_REPO=$W VF_NO_EVIDENCE=1 VERIF_TIER=$T ./vf check $P "$@" > /tmp/tryseed-$S.log 2>&1; rc=$?
git -C $W checkout -- .
grep -E "VIOLATION|violation in|OK property|INCONCLUSIVE|ENGINE-MISMATCH|BUILD-FAILURE" /tmp/tryseed-$S.log | head -4 | cut -c1-260
echo "seed $S check $P rc=$rc"
