#!/bin/bash
# run_seed.sh <seed-dir-name> [tier] [harness...] : apply the seeded patch to /repo, run the property's check, undo the patch.
S=$1; T=${2:-quick}; shift; shift
D=/verif/seeded/$S; P=$(python3 -c "import json;print(json.load(open('$D/meta.json'))['property'])")
[ -n "${PROP:-}" ] && P=$PROP
cd /repo && git apply $D/patch.diff || exit 2
cd /verif && VF_NO_EVIDENCE=1 VERIF_TIER=$T ./vf check $P "$@" > /tmp/seedrun-$S-$P.log 2>&1; rc=$?
git -C /repo checkout -- .
grep -E "VIOLATION|violation in|OK property|INCONCLUSIVE|ENGINE-MISMATCH|BUILD-FAILURE" /tmp/seedrun-$S-$P.log | head -8
echo "seed $S check $P rc=$rc"
