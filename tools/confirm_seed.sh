#!/bin/bash
# confirm_seed.sh <prop> <X> [basedir=/tmp/mut] [name=<prop>-<X>] : independently confirm a seeded change delivered in /tmp/mut/<prop>/out/<X> in the scratch worktree /tmp/mut/<prop>:
# (1) clean tree: build, tests pass, demo passes; (2) with patch: build, tests pass, demo fails. On success copy to /verif/seeded/<prop>-<X>/
set -u
P=$1; X=$2; B=${3:-/tmp/mut}; N=${4:-$P-$X}; W=$B/$P; O=$W/out/$X; L=$B/confirm-$P-$X.log
cd $W || exit 2
git checkout -- src include 2>/dev/null
build() { cmake -G Ninja -S . -B _build >/dev/null 2>&1 && cmake --build _build >/dev/null 2>&1; }
tests() { ctest --test-dir _build -j8 2>&1 | grep -q '100% tests passed'; }
{
build || { echo "CLEAN BUILD FAILED"; exit 1; }
tests || { echo "CLEAN TESTS FAILED"; exit 1; }
sh $O/run_demo.sh >/dev/null 2>&1; c=$?
echo "clean demo rc=$c"
[ $c -eq 0 ] || { echo "DEMO FAILS ON CLEAN TREE"; exit 1; }
git apply $O/patch.diff || { echo "PATCH DOES NOT APPLY"; exit 1; }
build || { echo "PATCHED BUILD FAILED"; git checkout -- src include; exit 1; }
tests; t=$?
sh $O/run_demo.sh >/dev/null 2>&1; m=$?
git checkout -- src include
echo "patched tests rc=$t demo rc=$m"
[ $t -eq 0 ] || { echo "TESTS FAIL WITH PATCH"; exit 1; }
[ $m -ne 0 ] || { echo "DEMO PASSES WITH PATCH"; exit 1; }
D=/verif/seeded/$N; mkdir -p $D
cp $O/patch.diff $O/demo.cpp $O/run_demo.sh $D/
python3 - $O/meta.json $D/meta.json $P <<PY
import json,sys
m=json.load(open(sys.argv[1]))
out={'property':sys.argv[3],'summary':m.get('summary'),'needs':m.get('needs'),'files':m.get('files'),
 'confirmed':{'clean_tree':'cmake+ninja build, ctest all passed, demo exit 0','with_patch':'build ok, ctest all passed, demo exit $m','how':'tools/confirm_seed.sh in a scratch worktree of /repo HEAD'},
 'detected_by':None}
json.dump(out,open(sys.argv[2],'w'),indent=1)
PY
echo CONFIRMED $N
} 2>&1 | tee $L
