#!/bin/bash
# run_all.sh [tier] : every claimed check on the current tree, in sequence; prints one line per property
T=${1:-quick}; cd "$(dirname "$0")/.."; L=${TMPDIR:-/tmp}
for p in $(python3 -c "import json; print(' '.join(c['property_id'] for c in json.load(open('MANIFEST.json'))['checks']))"); do
  s=$(date +%s); VERIF_TIER=$T ./vf check $p > $L/runall-$p-$T.log 2>&1; rc=$?
  echo "$p rc=$rc $(( $(date +%s) - s ))s $(grep -c '^KNOWN-FINDING' $L/runall-$p-$T.log) known $(grep -c '^VIOLATION' $L/runall-$p-$T.log) violations $(grep -c '^INCONCLUSIVE\|^ENGINE-MISMATCH' $L/runall-$p-$T.log) inconclusive"
done
