#!/bin/bash
# reconfirm_seeds.sh [seed...] : re-confirm every kept seed against /repo's current HEAD in a private scratch worktree (/tmp/reconf):
# clean tree: build, test suite passes, demo exits 0; with the patch: builds, test suite passes, demo exits non-zero.
# Prints one line per seed and rewrites meta.json's "confirmed" block; removes the worktree at the end.
W=/tmp/reconf; J=${J:-6}
git -C /repo worktree remove --force $W >/dev/null 2>&1; rm -rf $W
git -C /repo worktree add --detach $W HEAD >/dev/null 2>&1 || exit 2
cd $W
build() { cmake -G Ninja -S . -B _build >/dev/null 2>&1 && cmake --build _build -j$J >/dev/null 2>&1; }
tests() { ctest --test-dir _build -j8 2>&1 | grep -q '100% tests passed'; }
build && tests || { echo "CLEAN BUILD/TESTS FAILED"; exit 1; }
SEEDS="$@"; [ -n "$SEEDS" ] || SEEDS=$(ls /verif/seeded)
HEAD=$(git -C /repo rev-parse --short HEAD)
mkdir -p /tmp/reconf-demos
# phase 1: every demo against the clean build
declare -A CLEAN
for S in $SEEDS; do
  D=/verif/seeded/$S; T=/tmp/reconf-demos/$S; rm -rf $T; mkdir -p $T; cp $D/demo.cpp $D/run_demo.sh $T/
  sh $T/run_demo.sh >/dev/null 2>&1; CLEAN[$S]=$?
done
# phase 2: each patch alone (the library is rebuilt from the patched sources; the next patch starts from the reverted sources)
for S in $SEEDS; do
  D=/verif/seeded/$S; T=/tmp/reconf-demos/$S; c=${CLEAN[$S]}
  git apply $D/patch.diff 2>/dev/null || { echo "$S PATCH-DOES-NOT-APPLY"; continue; }
  if build; then tests; t=$?; sh $T/run_demo.sh >/dev/null 2>&1; m=$?; else t=-1; m=-1; fi
  git checkout -- . ; 
  v=BAD; [ $c -eq 0 ] && [ $t -eq 0 ] && [ $m -gt 0 ] && v=CONFIRMED
  echo "$S clean_demo=$c patched_tests=$t patched_demo=$m $v"
  [ $v = CONFIRMED ] && python3 - $D/meta.json $m $HEAD <<'PY'
import json,sys
p=sys.argv[1]; m=json.load(open(p))
m['confirmed']={'clean_tree':'cmake+ninja build, ctest all passed, demo exit 0','with_patch':'build ok, ctest all passed, demo exit '+sys.argv[2],'how':'tools/reconfirm_seeds.sh in a scratch worktree of /repo at '+sys.argv[3]}
json.dump(m,open(p,'w'),indent=1)
PY
  rm -rf $T
done
build >/dev/null 2>&1
cd /; git -C /repo worktree remove --force $W; rm -rf /tmp/reconf-demos
