#!/bin/bash
# run_all_seeds.sh [tier] : apply each seeded change to /repo, run the check of its property, undo; record the outcome in seeded/<id>/meta.json
# usage: run_all_seeds.sh [tier] [seed...]   (TRY_W selects the scratch worktree, so that two runs can share the work)
T=${1:-quick}; shift; cd /verif
SEEDS="$@"; [ -n "$SEEDS" ] || SEEDS=$(ls seeded)
for s in $SEEDS; do
  d=seeded/$s
  out=$(./tools/try_seed.sh $s $T 2>&1)
  rc=$(echo "$out" | grep -o 'rc=[0-9]*' | tail -1 | cut -d= -f2)
  first=$(echo "$out" | grep -m1 'violation in' | sed 's/^ *//' | cut -c1-300)
  python3 - "$d/meta.json" "$rc" "$first" "$T" <<'PY'
import json,sys,re
p,rc,first,tier=sys.argv[1:5]
m=json.load(open(p))
if rc=='1':
    h=re.search(r'violation in (\w+): (\w+) ([\w-]+)',first)
    m['detected_by']={'check':m['property'],'tier':tier,'harness':h.group(1) if h else None,'kind':h.group(2) if h else None,'assertion':h.group(3) if h else None,'first_report':first}
else:
    m['detected_by']=None; m['last_run']={'tier':tier,'rc':rc}
json.dump(m,open(p,'w'),indent=1)
PY
  echo "$s rc=$rc"
done

