// C03: printing an expression or query and re-parsing it reproduces the same tree, and printing again gives the identical text.
// Real code: expression_t::str / print / get_precedence / embrace / embrace_strict, type_t::print (quantifier binders), then the whole parse
// pipeline (lexer, grammar, Expression/StatementBuilder, parseProperty) on the printed text.
// Symbolic: parent and child operator and the child position (full operator set), constants from a pool of awkward values,
// query form / bound kind / runs / path quantifier / comparison.
// The source trees are obtained by parsing fully parenthesised text, so their shape is known independently of the printer.
#include "common.h"
#include <climits>

static const char* DECLS = "int a; int b; int c; int d; bool p; bool q; clock x; clock y; double dd; int arr[4]; struct { int f; int g; } r; int fn(int u, int v) { return u; }\n";

struct QB : StatementBuilder {
    expression_t query;
    explicit QB(Document& d): StatementBuilder{d} {}
    void property() override { if (fragments.size()) { query = fragments[0]; fragments.pop(); } }
    void strategy_declaration(const char*) override {}
    void subjection(const char*) override {}
    void imitation(const char*) override {}
    variable_t* addVariable(type_t, const std::string&, expression_t, position_t) override { throw NotSupportedException("addVariable"); }
    bool addFunction(type_t, const std::string&, position_t) override { throw NotSupportedException("addFunction"); }
};

// independent structural comparison: kinds, arity, identifier names (binders are fresh symbols per parse, so names are compared),
// integer constants by value, floating constants bit-for-bit, field index, synchronisation direction
static bool same_tree(const expression_t& x, const expression_t& y)
{
    if (x.empty() || y.empty()) return x.empty() == y.empty();
    if (x.get_kind() != y.get_kind() || x.get_size() != y.get_size()) return false;
    switch (x.get_kind()) {
    case IDENTIFIER: if (x.get_symbol().get_name() != y.get_symbol().get_name()) return false; break;
    case CONSTANT:
        if (x.get_type().is_double() != y.get_type().is_double()) return false;
        if (x.get_type().is_double()) { double u = x.get_double_value(), v = y.get_double_value(); if (memcmp(&u, &v, 8) != 0) return false; }
        else if (x.get_type().is_integral() && x.get_value() != y.get_value()) return false;
        break;
    case DOT: if (x.get_index() != y.get_index()) return false; break;
    case SYNC: if (x.get_sync() != y.get_sync()) return false; break;
    default: break;
    }
    for (size_t k = 0; k < x.get_size(); k++) if (!same_tree(x.get(k), y.get(k))) return false;
    return true;
}

// parse -> print -> parse -> print; asserts the round-trip laws. parse_fn parses text in the scope and returns the tree (empty on diagnostics)
template <typename P>
static void roundtrip(Ctx& cx, const std::string& text0, P parse_fn)
{
    size_t n0 = cx.nerr();
    expression_t e0;
    vf_note(text0.c_str());
    try { e0 = parse_fn(text0); } catch (std::exception& ex) { vf_note(ex.what()); vf_assert(false, "source-text-accepted"); return; }
    if (cx.nerr() != n0 || e0.empty()) { note_errors(cx.doc, n0); vf_assert(false, "source-text-accepted"); return; }
    std::string s1;
    bool threw = false;
    try { s1 = e0.str(); } catch (std::exception&) { threw = true; }
    vf_assert(!threw, "printing-does-not-throw");
    if (threw) return;
    vf_note(s1.c_str());
    expression_t e1;
    try { e1 = parse_fn(s1); } catch (std::exception& ex) { vf_note(ex.what()); }
    bool accepted = cx.nerr() == n0 && !e1.empty();
    if (!accepted) note_errors(cx.doc, n0);
    vf_assert(accepted, "printed-text-accepted");
    if (!accepted) return;
    vf_assert(same_tree(e0, e1), "reparsed-tree-structurally-equal");
    std::string s2 = e1.str();
    vf_note(s2.c_str());
    vf_assert(s2 == s1, "second-print-identical");
}

// ---- operator pool: every operator the expression grammar has, with the way to write it around fully parenthesised operands
enum { BINARY, PREFIX, POSTFIX, TERNARY, INDEX, CALL, FIELD, QUANT };
struct Op { const char* tok; int form; };
static const Op OPS[] = {
    {"**", BINARY}, {"*", BINARY}, {"/", BINARY}, {"%", BINARY}, {"+", BINARY}, {"-", BINARY}, {"<<", BINARY}, {">>", BINARY}, {"<?", BINARY}, {">?", BINARY}, {"<", BINARY}, {"<=", BINARY},
    {">=", BINARY}, {">", BINARY}, {"==", BINARY}, {"!=", BINARY}, {"&", BINARY}, {"^", BINARY}, {"|", BINARY}, {"&&", BINARY}, {"||", BINARY}, {"xor", BINARY}, {"imply", BINARY},
    {"=", BINARY}, {"+=", BINARY}, {"<<=", BINARY},
    {"-", PREFIX}, {"!", PREFIX}, {"++", PREFIX}, {"--", PREFIX}, {"++", POSTFIX}, {"--", POSTFIX},
    {"?:", TERNARY}, {"[]", INDEX}, {"()", CALL}, {".f", FIELD}, {"forall", QUANT}, {"exists", QUANT}, {"sum", QUANT}};
static const int NOPS = sizeof OPS / sizeof OPS[0];
static int arity(const Op& o) { return o.form == BINARY || o.form == INDEX || o.form == CALL ? 2 : o.form == TERNARY ? 3 : 1; }
// leaves: position-dependent so that assignment targets etc. make sense syntactically
static const char* LEAF[3] = {"a", "b", "c"};
static std::string mkexpr(const Op& o, const std::string x[3])
{
    switch (o.form) {
    case BINARY: return "(" + x[0] + ") " + o.tok + " (" + x[1] + ")";
    case PREFIX: return std::string(o.tok) + "(" + x[0] + ")";
    case POSTFIX: return "(" + x[0] + ")" + o.tok;
    case TERNARY: return "(" + x[0] + ") ? (" + x[1] + ") : (" + x[2] + ")";
    case INDEX: return "arr[" + x[1] + "]";    // operand 0 fixed: the array; operand 1 the index
    case CALL: return "fn(" + x[0] + ", " + x[1] + ")";
    case FIELD: return "r.f";
    case QUANT: return std::string(o.tok) + " (k : int[0,3]) (" + x[0] + ")";
    }
    return "";
}

extern "C" void harness_operator_pairs()  /* vf: bounds=parent_operator_x_child_operator_x_child_position_over_39_operators(23_binary,3_assignment,prefix/postfix,inline-if,index,call,field,quantifiers);depth_2 */
{
    Ctx cx;
    vf_assert(cx.declare(DECLS) == 0, "declarations-accepted");
    int pi = vf_pick("parent", NOPS), ci = vf_pick("child", NOPS);
    const Op &P = OPS[pi], &C = OPS[ci];
    int pos = vf_pick("position", 3);
    vf_assume(pos < arity(P) && P.form != FIELD && !(P.form == INDEX && pos == 0));
    std::string leaves[3] = {LEAF[0], LEAF[1], LEAF[2]}, inner[3] = {"d", "b", "c"};
    std::string ops[3] = {leaves[0], leaves[1], leaves[2]};
    ops[pos] = mkexpr(C, inner);
    roundtrip(cx, mkexpr(P, ops), [&](const std::string& t) { return cx.expr(t.c_str()); });
    vf_reach("end");
}

extern "C" void harness_constants()  /* vf: bounds=integer_and_floating_constants_from_a_pool_of_28_awkward_values,plain_and_as_operands_of_unary_minus/binary_minus/multiplication */
{
    static const char* VALS[] = {"0", "1", "2147483647", "-2147483648", "-1", "0.1", "1e-7", "1e22", "123456789.25", "2.2250738585072014e-308", "4.9e-324", "1.7976931348623157e308", "0.5", "100.0",
                                 "1234567.0", "0.30000000000000004", "3.141592653589793", "1e6", "1e5", "2.5e-3", "16777217.0", "1.0", "0.0", "9007199254740993.0", "1e23", "65536.125", "7e-5", "12345678.0"};
    Ctx cx;
    vf_assert(cx.declare(DECLS) == 0, "declarations-accepted");
    int v = vf_pick("value", 28), ctx = vf_pick("context", 4);
    std::string t = VALS[v];
    if (ctx == 1) t = "-(" + t + ")"; else if (ctx == 2) t = "a - (" + t + ")"; else if (ctx == 3) t = "(" + t + ") * dd";
    roundtrip(cx, t, [&](const std::string& s) { return cx.expr(s.c_str()); });
    vf_reach("end");
}

extern "C" void harness_queries()  /* vf: bounds=query_forms_of_the_property(A[],E<>,A<>,E[],-->,sup/inf/bounds,Pr_with/without_comparison,Pr>=Pr,E[](min|max),simulate,control_family,minE/maxE/minPr/maxPr,load/saveStrategy,MITL)_x_bound_kind(<=,#<=,clock<=)_x_runs_x_path_quantifier_x_comparison */
{
    Ctx cx;
    vf_assert(cx.declare(DECLS) == 0, "declarations-accepted");
    int form = vf_pick("form", 36);
    static const char* BOUND[] = {"<=10", "#<=10", "x<=10"};
    static const char* RUNS[] = {"", "; 7", "; 0", "; 1"};   // no run count, and counts including the boundary values
    std::string bnd = BOUND[vf_pick("bound", 3)], runs = RUNS[vf_pick("!runs", 4)], pq = vf_pick("!box", 2) ? "[]" : "<>", cmp = vf_pick("!le", 2) ? "<=" : ">=";
    // file names as they are written in a query: a backslash is written twice (the lexer's string token cannot contain a double quote at all)
    static const char* FNAMES[] = {"path", "dir/strategy.json", "C:\\\\dir\\\\s.json", "a b", "tail\\\\"};
    std::string fname = FNAMES[(form == 28 || form == 29) ? vf_pick("!file_name", 5) : 0];
    std::string t;
    switch (form) {
    case 0: t = "A[] p && a < 3"; break;
    case 1: t = "E<> a == b + 1"; break;
    case 2: t = "A<> p || q"; break;
    case 3: t = "E[] !p"; break;
    case 4: t = "p && a > 1 --> q"; break;
    case 5: t = "sup: a, b + 1"; break;
    case 6: t = "inf{p}: x, a"; break;
    case 7: t = "bounds{p && q}: a"; break;
    case 8: t = "Pr[" + bnd + runs + "] (" + pq + " p && a > 2)"; break;
    case 9: t = "Pr[" + bnd + runs + "] (" + pq + " p) " + cmp + " 0.5"; break;
    case 10: t = "Pr[" + bnd + "] (" + pq + " p) >= Pr[<=5] (<> q)"; break;
    case 11: t = "E[" + bnd + runs + "] (max: a + b)"; break;
    case 12: t = "E[" + bnd + runs + "] (min: a)"; break;
    case 13: t = "simulate [" + bnd + runs + "] {a, b + 1, p}"; break;
    case 14: t = "simulate [" + bnd + runs + "] {a} : 3 : p"; break;
    case 15: t = "control: A<> p"; break;
    case 16: t = "control: A[] !q"; break;
    case 17: t = "control: A[ p U q ]"; break;
    case 18: t = "control: A[ p W q ]"; break;
    case 19: t = "control_t*(2, 1): A<> p"; break;
    case 20: t = "control_t*(2): A<> p"; break;
    case 21: t = "control_t*: A<> p"; break;
    case 22: t = "E<> control: A<> p"; break;
    case 23: t = "{a, b} control: A<> p"; break;
    case 24: t = "minE(a)[" + bnd + "] : <> p"; break;
    case 25: t = "maxE(a + b)[" + bnd + "] {a} -> {dd} : <> p"; break;
    case 26: t = "minPr[" + bnd + "] : <> p"; break;
    case 27: t = "maxPr[" + bnd + "] : <> q && a > 1"; break;
    case 28: t = "strategy S = loadStrategy{a}->{dd}(\"" + fname + "\")"; break;
    case 29: t = "saveStrategy(\"" + fname + "\", S)"; break;
    case 30: t = "Pr (<>[0,10] p)"; break;
    case 31: t = "Pr ([] [0,10] (p U[1,2] q))"; break;
    case 32: t = "A[] forall (k : int[0,3]) arr[k] < 5"; break;
    case 33: t = "E<> exists (k : int[0,3]) arr[k] == k && p"; break;
    case 34: t = "Pr[" + bnd + runs + "] (p U q && a > 1)"; break;
    case 35: t = "Pr[" + bnd + runs + "] (" + pq + " q) " + cmp + " 0.25"; break;
    }
    roundtrip(cx, t, [&](const std::string& s) { QB qb(cx.doc); qb.query = expression_t(); int rc = parseProperty(s.c_str(), &qb, ""); return rc == 0 ? qb.query : expression_t(); });
    vf_reach("end");
}

// every built-in function: the printer's name table and the lexer's keyword table must agree (61 functions, arity from the grammar)
extern "C" void harness_builtin_functions()  /* vf: bounds=61_built-in_functions_with_their_arity,as_a_top-level_operand_and_nested_in_another_call reach=end */
{
    struct Fn { const char* name; int arity; };
    static const Fn FNS[] = {{"abs", 1}, {"fabs", 1}, {"fmod", 2}, {"fma", 3}, {"fmax", 2}, {"fmin", 2}, {"fdim", 2}, {"exp", 1}, {"exp2", 1}, {"expm1", 1}, {"ln", 1}, {"log", 1}, {"log10", 1}, {"log2", 1}, {"log1p", 1},
        {"pow", 2}, {"sqrt", 1}, {"cbrt", 1}, {"hypot", 2}, {"sin", 1}, {"cos", 1}, {"tan", 1}, {"asin", 1}, {"acos", 1}, {"atan", 1}, {"atan2", 2}, {"sinh", 1}, {"cosh", 1}, {"tanh", 1}, {"asinh", 1}, {"acosh", 1}, {"atanh", 1},
        {"erf", 1}, {"erfc", 1}, {"tgamma", 1}, {"lgamma", 1}, {"ceil", 1}, {"floor", 1}, {"trunc", 1}, {"round", 1}, {"fint", 1}, {"ldexp", 2}, {"ilogb", 1}, {"logb", 1}, {"nextafter", 2}, {"copysign", 2}, {"fpclassify", 1},
        {"isfinite", 1}, {"isinf", 1}, {"isnan", 1}, {"isnormal", 1}, {"signbit", 1}, {"isunordered", 1}, {"random", 1}, {"random_arcsine", 2}, {"random_beta", 2}, {"random_gamma", 2}, {"random_normal", 2}, {"random_poisson", 1},
        {"random_tri", 3}, {"random_weibull", 2}};
    Ctx cx;
    vf_assert(cx.declare(DECLS) == 0, "declarations-accepted");
    int f = vf_pick("function", 61), nested = vf_pick("nested", 2);
    static const char* ARGS[] = {"dd", "0.5", "a + 2.5"};
    std::string call = std::string(FNS[f].name) + "(";
    for (int k = 0; k < FNS[f].arity; k++) call += std::string(k ? ", " : "") + ARGS[k];
    call += ")";
    std::string t = nested ? "fmax(" + call + ", 0.25) * dd" : call + " + dd";
    roundtrip(cx, t, [&](const std::string& s) { return cx.expr(s.c_str()); });
    vf_reach("end");
}
