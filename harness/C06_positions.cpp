// C06: every diagnostic points into the element, line and columns that caused it.
// Real code: position_index_t::add / find (binary search), Document::add_error / add_position, PositionTracker (setPath, increment, newline),
// the lexer's YY_USER_ACTION and newline / comment / continuation rules, XMLReader's Path and per-block tracker.setPath calls, TypeChecker::handleError.
// Symbolic: (unit) line table positions and the queried position - decided by the solver for all 32-bit values; (pipeline) the faulted block,
// the fault, the layout in front of and inside the block text (blank lines, CRLF, block / line comments, line continuation, tabs).
#include "xmlmodel.h"
#include <climits>

// ---- (i) the line table: find() returns the last entry whose position is <= the query
extern "C" void harness_position_index()  /* vf: bounds=line_table_of_1..6_entries_with_arbitrary_non-decreasing_32-bit_positions;arbitrary_query_position>=first_entry;solver_decides_all_values */
{
    int n = vf_range("!entries", 1, 6);
    position_index_t idx;
    uint32_t pos[6];
    auto path = std::make_shared<std::string>("/p");
    for (int k = 0; k < n; k++) {
        pos[k] = vf_uint("position");
        if (k) vf_assume(pos[k] >= pos[k - 1]);
        idx.add(pos[k], (uint32_t)k, (uint32_t)(k + 1), path);
    }
    uint32_t q = vf_uint("query");
    vf_assume(q >= pos[0]);
    const auto& l = idx.find(q);
    // oracle: linear scan for the last entry with position <= q (among equal positions any of them has the same position value)
    uint32_t want = pos[0];
    for (int k = 0; k < n; k++) if (pos[k] <= q) want = pos[k];
    vf_assert(l.position == want, "find-returns-last-line-not-after-the-position");
    vf_assert(l.position <= q, "found-line-starts-at-or-before-the-position");
    vf_assert(l.line >= 1 && l.line <= (uint32_t)n, "found-line-is-an-entry");
    vf_reach("end");
}
extern "C" void harness_position_index_monotone()  /* vf: bounds=add()_rejects_a_decreasing_position_with_std::logic_error_and_accepts_any_non-decreasing_one;all_32-bit_values */
{
    position_index_t idx;
    uint32_t a = vf_uint("a"), b = vf_uint("b");
    auto path = std::make_shared<std::string>("/p");
    idx.add(a, 0, 1, path);
    bool threw = false;
    try { idx.add(b, 0, 2, path); } catch (std::logic_error&) { threw = true; }
    vf_assert(threw == (b < a), "add-throws-exactly-for-decreasing-positions");
    vf_reach("end");
}

// ---- (ii) pipeline
static MModel base_model()
{
    MModel m;
    m.gdecl = "int g; int h; clock x; clock y; chan c; const int K = 2;";
    MTemplate t; t.name = "T"; t.params = "const int a"; t.decls = "clock z; int loc;";
    t.locs = {MLoc{"id0", "A", "z <= 5"}, MLoc{"id1", "B", "x <= 7"}, MLoc{"id2", "C"}};
    t.init = 0;
    MEdge e0; e0.src = 0; e0.dst = 1; e0.guard = "g < 3"; e0.sync = "c!"; e0.assign = "h = g + 1";
    MEdge e1; e1.src = 1; e1.dst = 2; e1.select = "k : int[0,2]"; e1.guard = "h > 1"; e1.assign = "g = 0";
    MEdge e2; e2.src = 2; e2.dst = 0; e2.assign = "loc = 1";
    t.edges = {e0, e1, e2};
    MTemplate u; u.name = "U";
    u.locs = {MLoc{"id10", "A"}, MLoc{"id11", "B", "y <= 9"}};
    u.init = 1;
    MEdge f; f.src = 1; f.dst = 0; f.guard = "y >= 1"; f.sync = "c?"; f.assign = "y = 0"; u.edges = {f};
    m.templs = {t, u};
    m.system = "P1 = T(1); system P1, U;";
    return m;
}
// text blocks of the model with their XPath
struct Block { const char* path; int kind; };   // kind: 0 expression label, 1 declarations, 2 parameters, 3 system, 4 update label, 5 sync label, 6 select label
static const Block BLOCKS[] = {
    {"/nta/declaration", 1}, {"/nta/template[1]/parameter", 2}, {"/nta/template[1]/declaration", 1}, {"/nta/template[1]/location[1]/label[1]", 0}, {"/nta/template[1]/location[2]/label[1]", 0},
    {"/nta/template[1]/transition[1]/label[1]", 0}, {"/nta/template[1]/transition[1]/label[3]", 4}, {"/nta/template[1]/transition[2]/label[2]", 0}, {"/nta/template[1]/transition[3]/label[1]", 4},
    {"/nta/template[2]/transition[1]/label[1]", 0}, {"/nta/template[2]/location[2]/label[1]", 0}, {"/nta/system", 3}, {"/nta/template[1]/transition[1]/label[2]", 5}, {"/nta/template[1]/transition[2]/label[1]", 6}};
static const int NBLOCKS = sizeof BLOCKS / sizeof BLOCKS[0];
static std::string* block_text(MModel& m, int b)
{
    MTemplate& t = m.templs[0]; MTemplate& u = m.templs[1];
    switch (b) {
    case 0: return &m.gdecl; case 1: return &t.params; case 2: return &t.decls; case 3: return &t.locs[0].inv; case 4: return &t.locs[1].inv; case 5: return &t.edges[0].guard;
    case 6: return &t.edges[0].assign; case 7: return &t.edges[1].guard; case 8: return &t.edges[2].assign; case 9: return &u.edges[0].guard; case 10: return &u.locs[1].inv; case 11: return &m.system;
    case 12: return &t.edges[0].sync; case 13: return &t.edges[1].select;
    }
    return nullptr;
}
static const char* LAYOUT[] = {"", "\n", "\n\n\n", "\r\n", "  \t ", "/* c */ ", "/* l1\nl2 */\n", "// c\n", "\\\n", "\n  /* a\n b\n c */  \n\t", "\r\n\r\n  "};
static const int NLAYOUT = sizeof LAYOUT / sizeof LAYOUT[0];

// an undeclared identifier `nope` is put at a known place of a block; the reported range must be exactly the identifier
extern "C" void harness_undeclared_identifier()  /* vf: bounds=14_text_blocks(global/local_declarations,parameters,invariants,guards,updates,synchronisation,select,system)_x_11_layouts_before_the_block_text_x_5_layouts_in_front_of_the_identifier;in_the_system_block_5_roles(argument,process_list_positions_1..3_incl._a_list_over_two_lines,after_priority) reach=end */
{
    int b = vf_pick("!block", NBLOCKS), lay = vf_pick("!layout", NLAYOUT), mid = vf_pick("!inner_layout", 5);
    static const char* MID[] = {" ", "\n", "  /* x */  ", "\r\n\t", " // y\n  "};
    MModel m = base_model();
    std::string* t = block_text(m, b);
    std::string pre = LAYOUT[lay], head, tail;
    switch (BLOCKS[b].kind) {
    case 0: head = *t + " &&" + MID[mid]; tail = " > 0"; break;                    // <orig> && nope > 0
    case 1: head = *t + " int q =" + MID[mid]; tail = ";"; break;                   // declarations: int q = nope;
    case 2: head = *t + ", const int[0," + MID[mid]; tail = "] pp"; break;         // parameters: const int[0, nope] pp
    case 3: {   // the system block: the unknown name in every role a name can have there
        int role = vf_pick("!role", 6);
        vf_assume(role != 1);   // an unknown template name is reported as "$Not_a_template" on the whole instantiation head 'P1 = nope', not as an undeclared identifier
        std::string M = MID[mid];
        switch (role) {
        case 0: head = "P1 = T(" + M; tail = "); system P1, U;"; break;              // instantiation argument
        case 1: head = "P1 =" + M; tail = "(1); system U;"; break;                     // instantiated template
        case 2: head = "system" + (M == " " || M == "\n" || M == "\r\n\t" ? M : " " + M); tail = ", U;"; break;   // first of the process list
        case 3: head = "system U," + M; tail = ";"; break;                               // second
        case 4: head = "U2 = U(); system U,\n U2," + M; tail = ";"; break;             // third, list over two lines
        default: head = "system U <" + M; tail = ";"; break;                              // after a priority separator
        }
        break; }
    case 4: head = *t + ", g =" + MID[mid]; tail = " + 1"; break;
    case 5: head = "c[" + std::string(MID[mid]); tail = "]!"; break;
    case 6: head = "k : int[0," + std::string(MID[mid]); tail = "]"; break;
    }
    std::string text = pre + head + "nope" + tail;
    *t = text;
    // independent line / column count of the identifier inside the block text
    size_t at = pre.size() + head.size();
    int line = 1; size_t bol = 0;
    for (size_t i = 0; i < at; i++) if (text[i] == '\n') { line++; bol = i + 1; }
    int col = (int)(at - bol);
    XmlDoc d = render_xml(m);
    Document doc; bool threw = false;
    try { parse_xml(d, &doc); } catch (std::exception& e) { threw = true; vf_note(e.what()); }
    vf_note(BLOCKS[b].path); vf_note(text.c_str()); vf_notei("line", line); vf_notei("col", col);
    vf_assert(!threw, "parse-returns");
    bool found = false, all_in_block = true, exact = false, ordered = true;
    for (auto& e : doc.get_errors()) {
        std::string p = e.start.path ? *e.start.path : std::string();
        vf_note((e.msg + diag_pos(e)).c_str());
        if (p != BLOCKS[b].path) all_in_block = false;
        long sc = (long)e.position.start - (long)e.start.position, ec = (long)e.position.end - (long)e.end.position;
        if (e.position.start > e.position.end || e.start.line > e.end.line) ordered = false;
        if (e.msg.find("$Unknown_identifier") != std::string::npos || e.msg.find("nope") != std::string::npos) {
            found = true;
            if (p == BLOCKS[b].path && (int)e.start.line == line && (int)e.end.line == line && sc == col && ec == col + 4) exact = true;
        }
    }
    vf_reach("end");
    vf_assert(found, "undeclared-identifier-reported");
    vf_assert(ordered, "start-not-after-end");
    if (BLOCKS[b].kind != 1 && BLOCKS[b].kind != 2 && BLOCKS[b].kind != 3 && BLOCKS[b].kind != 6) vf_assert(all_in_block, "every-error-attributed-to-the-faulted-label");
    else vf_assert(doc.has_errors(), "at-least-one-error");
    vf_assert(exact, "range-covers-exactly-the-identifier");
}

// elements without content before the faulted block, written with start and end tag or in the self-closing form: the XPath of the block counts them all
extern "C" void harness_empty_elements()  /* vf: bounds=childless_anonymous_location_at_position_1..3_before_a_location_with_a_faulty_invariant;guard_label_without_text_before_a_faulty_update;each_written_as_<x></x>_or_<x/> reach=end */
{
    int kind = vf_pick("!faulted", 2), pos = vf_pick("!empty_at", 3), sc = vf_pick("!self_closing", 2), two = vf_pick("!two_empty_elements", 2);
    MModel m; m.gdecl = "int g; clock x;"; m.system = "system T;";
    MTemplate t; t.name = "T";
    t.locs = {MLoc{"id0", "A"}, MLoc{"id1", "B"}, MLoc{"id2", "C"}, MLoc{"id3", "D"}};
    t.init = 3;
    std::string path;
    if (kind == 0) {
        t.locs[pos].name = ""; if (two) t.locs[(pos + 1) % 3].name = "";
        t.locs[3].inv = "nope <= 5";
        path = "/nta/template[1]/location[4]/label[1]";
        MEdge e; e.src = 3; e.dst = 3; e.guard = "g < 1"; t.edges = {e};
    } else {
        MEdge e0; e0.src = 3; e0.dst = 3; e0.empty_guard_label = pos != 0; e0.assign = "g = 1";
        MEdge e1; e1.src = 3; e1.dst = 0; e1.empty_guard_label = true; e1.sync = ""; e1.assign = "g = nope";
        t.edges = {e0, e1};
        path = "/nta/template[1]/transition[2]/label[2]";
    }
    m.templs = {t};
    xml_selfclose = sc;
    XmlDoc d = render_xml(m);
    xml_selfclose = false;
    Document doc; bool threw = false;
    try { parse_xml(d, &doc); } catch (std::exception& e) { threw = true; vf_note(e.what()); }
    vf_assert(!threw, "parse-returns");
    bool found = false, here = true;
    for (auto& e : doc.get_errors()) {
        std::string p = e.start.path ? *e.start.path : std::string();
        vf_note((e.msg + diag_pos(e)).c_str());
        if (e.msg.find("nope") != std::string::npos) { found = true; if (p != path) here = false; }
    }
    vf_reach("end");
    vf_assert(found, "undeclared-identifier-reported");
    vf_assert(here, "diagnostic-carries-the-xpath-of-the-faulted-block");
}

// other faults: the position lies inside the block: right XPath, line within the block text, columns within that line, start <= end
extern "C" void harness_fault_positions()  /* vf: bounds=14_text_blocks_x_7_faults(labels:dropped_operand,unbalanced_bracket,stray_token,type_error,side_effect,unterminated_comment,unknown_token;declarations_and_parameters:misplaced_prefixes,ill-typed_sizes_and_ranges)_x_11_layouts reach=end */
{
    int b = vf_pick("!block", NBLOCKS), lay = vf_pick("!layout", NLAYOUT), fault = vf_pick("!fault", 7);
    MModel m = base_model();
    std::string* t = block_text(m, b);
    int kind = BLOCKS[b].kind;
    vf_assume(kind == 0 || kind == 4 || kind == 1 || kind == 2);   // expression-like labels; declaration and parameter blocks with faults the type checker reports on type nodes
    static const char* FAULTS_EXPR[] = {" +", " )", " ] h", " + c", " + (g = 1)", " /* open", " @"};
    static const char* FAULTS_UPD[] = {" +", " )", ", ] h", ", g = c", ", K = 1", " /* open", " @"};
    // misplaced type prefixes, ill-formed ranges and sizes: reported by TypeChecker::checkType on the type's own nodes
    static const char* FAULTS_DECL[] = {" urgent int q1;", " broadcast int[0,3] q2;", " urgent broadcast int[0,7] q3;", " meta clock q4;", " int q5[c];", " int[x, 2] q6;", " struct { int a; chan b; } q7 = { 1 };"};
    static const char* FAULTS_PARAM[] = {", urgent int q1", ", broadcast int[0,3] q2", ", urgent broadcast int[0,1] q3", ", meta clock q4", ", int q5[c]", ", int[x, 2] q6", ", urgent broadcast bool &q7"};
    std::string text = std::string(LAYOUT[lay]) + *t + (kind == 0 ? FAULTS_EXPR[fault] : kind == 4 ? FAULTS_UPD[fault] : kind == 1 ? FAULTS_DECL[fault] : FAULTS_PARAM[fault]);
    *t = text;
    if (kind == 2) m.system = "system U;";   // the extra parameter is not given an argument: the template is left out of the system
    // line structure of the block text
    std::vector<size_t> linelen; { size_t cur = 0; for (char ch : text) { if (ch == '\n') { linelen.push_back(cur); cur = 0; } else cur++; } linelen.push_back(cur); }
    XmlDoc d = render_xml(m);
    Document doc; bool threw = false;
    try { parse_xml(d, &doc); } catch (std::exception& e) { threw = true; vf_note(e.what()); }
    vf_note(BLOCKS[b].path); vf_note(text.c_str());
    vf_assert(!threw, "parse-returns");
    bool in_block = false, all_ok = true;
    std::vector<UTAP::error_t> diags(doc.get_errors().begin(), doc.get_errors().end());
    diags.insert(diags.end(), doc.get_warnings().begin(), doc.get_warnings().end());   // warnings carry positions under the same rules
    for (auto& e : diags) {
        std::string p = e.start.path ? *e.start.path : std::string(), pe = e.end.path ? *e.end.path : std::string();
        vf_note((e.msg + diag_pos(e)).c_str());
        long sc = (long)e.position.start - (long)e.start.position, ec = (long)e.position.end - (long)e.end.position;
        bool ok = p == BLOCKS[b].path && pe == p && e.start.line >= 1 && e.start.line <= linelen.size() && e.end.line >= e.start.line && e.end.line <= linelen.size() &&
                  sc >= 0 && ec >= 0 && e.position.start <= e.position.end && (size_t)sc <= linelen[e.start.line - 1] && (size_t)ec <= linelen[e.end.line - 1] + 1;
        if (p == BLOCKS[b].path) in_block = true;
        if (!ok) { all_ok = false; vf_note("  ^ outside the block / line / columns"); }
    }
    vf_reach("end");
    bool side_effect_in_update = fault == 4 && kind == 4;
    if (!side_effect_in_update || true) vf_assert(doc.has_errors(), "fault-reported");
    vf_assert(in_block, "an-error-is-reported-inside-the-faulted-block");
    vf_assert(all_ok, "every-error-lies-inside-the-block-line-and-columns");
}

// diagnostics whose expression spans several lines: start and end are resolved separately through the line table
extern "C" void harness_multiline_ranges()  /* vf: bounds=errors_and_warnings_on_expressions_spanning_2..3_lines_in_updates,guards,invariants,declarations,system;11_layouts_before_the_block;exact_start_and_end_line/column reach=end */
{
    struct Case { int block; const char* head; const char* expr; const char* tail; const char* msg; bool warning; };
    // expr is the (multi-line) expression the diagnostic must cover exactly
    static const Case CASES[] = {
        {6, "h = 1, ", "g +\n  1", "", "$Expression_does_not_have_any_effect", true},
        {8, "", "g\n ==\n 2", ", loc = 1", "$Expression_does_not_have_any_effect", true},
        {5, "g < 3 && (", "g +\n c", ") > 0", "$Type_error", false},   // the message text is not compared, only the range
        {0, "int g; int h; clock x; clock y; chan c; const int K = 2; int q = ", "g +\n\n 1", ";", "$Must_be_computable_at_compile_time", false},
        {6, "", "h =\r\n  c", "", "$Incompatible_types", false},
        {3, "z <= 5 && (", "c ==\n 1", ")", "", false}};
    int ci = vf_pick("!case", 6), lay = vf_pick("!layout", NLAYOUT);
    const Case& cs = CASES[ci];
    MModel m = base_model();
    std::string* t = block_text(m, cs.block);
    std::string pre = std::string(LAYOUT[lay]) + cs.head;
    std::string text = pre + cs.expr + cs.tail;
    *t = text;
    auto linecol = [&](size_t at, int& line, int& col) { line = 1; size_t bol = 0; for (size_t i = 0; i < at; i++) if (text[i] == '\n') { line++; bol = i + 1; } col = (int)(at - bol); };
    int sl, sc, el, ec;
    linecol(pre.size(), sl, sc); linecol(pre.size() + strlen(cs.expr), el, ec);
    XmlDoc d = render_xml(m);
    Document doc; bool threw = false;
    try { parse_xml(d, &doc); } catch (std::exception& e) { threw = true; vf_note(e.what()); }
    vf_note(BLOCKS[cs.block].path); vf_note(text.c_str()); vf_notei("sl", sl); vf_notei("sc", sc); vf_notei("el", el); vf_notei("ec", ec);
    vf_assert(!threw, "parse-returns");
    std::vector<UTAP::error_t> diags(doc.get_errors().begin(), doc.get_errors().end());
    diags.insert(diags.end(), doc.get_warnings().begin(), doc.get_warnings().end());
    bool exact = false, sane = true;
    for (auto& e : diags) {
        std::string p = e.start.path ? *e.start.path : std::string(), pe = e.end.path ? *e.end.path : std::string();
        vf_note((e.msg + diag_pos(e)).c_str());
        long c0 = (long)e.position.start - (long)e.start.position, c1 = (long)e.position.end - (long)e.end.position;
        if (p != BLOCKS[cs.block].path || pe != p || e.start.line > e.end.line || c0 < 0 || c1 < 0 || e.position.start > e.position.end) sane = false;
        if (p == BLOCKS[cs.block].path && (int)e.start.line == sl && c0 == sc && (int)e.end.line == el && c1 == ec) exact = true;
    }
    vf_reach("end");
    vf_assert(!diags.empty(), "diagnostic-reported");
    vf_assert(sane, "start-and-end-in-the-same-element-and-ordered");
    vf_assert(exact, "a-diagnostic-covers-exactly-the-multi-line-expression");
}
