// Common harness support: private members of the library are made observable for harness TUs only
// (the library itself is compiled unchanged); helpers to build a document through the real parser and builders.
#ifndef VF_COMMON_H
#define VF_COMMON_H
#include <string>
#include <vector>
#include <map>
#include <set>
#include <list>
#include <deque>
#include <memory>
#include <stack>
#include <optional>
#include <filesystem>
#include <sstream>
#include <iostream>
#include <algorithm>
#include <functional>
#include <variant>
#include <stdexcept>
#include <system_error>
#include <cstring>
#include <cstdio>
#include <cstdint>
#define private public
#define protected public
#include "utap/utap.h"
#include "utap/builder.h"
#include "utap/DocumentBuilder.hpp"
#include "utap/StatementBuilder.hpp"
#include "utap/ExpressionBuilder.hpp"
#include "utap/typechecker.h"
#include "utap/featurechecker.h"
#include "utap/property.h"
#include "utap/prettyprinter.h"
#include "utap/range.h"
#undef private
#undef protected
#include "vf.h"

using namespace UTAP;
using namespace UTAP::Constants;

int32_t parse_XTA(const char* str, ParserBuilder* builder, bool newxta, xta_part_t part, std::string xpath);
int32_t parse_XTA(const char* str, ParserBuilder* builder, bool newxta);
int32_t parseProperty(const char* str, ParserBuilder* aParserBuilder, const std::string& xpath);

// a document with its builder; declarations are parsed with the real lexer, grammar and builders
struct Ctx
{
    Document doc;
    DocumentBuilder b;
    Ctx(): b(doc) {}
    // returns the number of diagnostics produced by parsing `text` as global declarations (built-ins first)
    size_t declare(const char* text, bool builtins = true)
    {
        size_t n0 = doc.get_errors().size();
        if (builtins) parse_XTA(utap_builtin_declarations(), &b, true, S_DECLARATION, "");
        parse_XTA(text, &b, true, S_DECLARATION, "/nta/declaration");
        return doc.get_errors().size() - n0;
    }
    // parse `text` with the given entry and return the expression it leaves on the builder's stack (empty if none)
    expression_t expr(const char* text, xta_part_t part = S_EXPRESSION)
    {
        uint32_t n0 = b.getExpressions().size();
        parse_XTA(text, &b, true, part, "");
        expression_t e;
        if (b.getExpressions().size() > n0) { e = b.getExpressions()[0]; b.getExpressions().pop(b.getExpressions().size() - n0); }
        return e;
    }
    size_t nerr() const { return doc.get_errors().size(); }
    bool has_error(const char* part, size_t from = 0) const
    {
        auto& es = doc.get_errors();
        for (size_t i = from; i < es.size(); i++) if (es[i].msg.find(part) != std::string::npos) return true;
        return false;
    }
};

// whole-model parse: built-in declarations are parsed at construction (shared prefix of all paths), then a whole-file XTA text goes through the
// real lexer, grammar and DocumentBuilder and, if that reported nothing, the real TypeChecker (and on request FeatureChecker), as parse_XTA(buf, doc) does
struct Model
{
    Document doc;
    DocumentBuilder b;
    bool newxta;
    explicit Model(bool newsyntax = true): b(doc), newxta(newsyntax) { if (newxta) parse_XTA(utap_builtin_declarations(), &b, true, S_DECLARATION, ""); }
    bool load(const std::string& xta, bool features = false)
    {
        parse_XTA(xta.c_str(), &b, newxta, S_XTA, "");
        if (!doc.has_errors()) {
            TypeChecker tc{doc};
            doc.accept(tc);
            if (features) { FeatureChecker fc{doc}; doc.set_supported_methods(fc.get_supported_methods()); }
        }
        return !doc.has_errors();
    }
    bool has_error(const char* part) const
    {
        for (auto& e : doc.get_errors()) if (e.msg.find(part) != std::string::npos) return true;
        return false;
    }
    // a query parsed and type-checked against this document; returns true if no new error was reported
    bool query(const std::string& q)
    {
        size_t n0 = doc.get_errors().size();
        TigaPropertyBuilder pb(doc);
        int rc = parseProperty(q.c_str(), &pb, "");
        return rc == 0 && doc.get_errors().size() == n0;
    }
};

static inline void note_errors(const Document& d, size_t from = 0)
{
    auto& es = d.get_errors();
    for (size_t i = from; i < es.size(); i++) vf_note(es[i].msg.c_str());
}
#endif
