// C13: sizes, bounds, initialisers and value arguments must be compile-time computable.
// Real code: lexer, grammar, builders (collectDependencies / `restricted` propagation in type_array_of_size, type_scalar, instantiation_end),
// TypeChecker::isCompileTimeComputable, CompileTimeComputableValues, checkType (RANGE / ARRAY / SCALAR), visitVariable, visitInstance,
// visitProcess, visitFunction (depends sets), expression_t::collect_possible_reads.
// Symbolic: the compile-time context, the dependence chain (length 0..3, each link a const initialiser, a function body or arithmetic),
// the way a function body reads its operand, and the terminal (literal, constant, mutable variable).
// Oracle by construction: accepted iff the chain ends in a literal or a constant.
#include "common.h"

enum { T_LIT, T_CONST, T_MUT, NTERM };
static const char* TERM[] = {"2", "K", "v"};
enum { L_CONST, L_FUN, L_ARITH, L_CONSTARR, L_CONSTIF, NLINK };
// how a function body depends on its operand X (all return a small positive value)
static const int NREAD = 11;
static std::string fbody(int r, const std::string& X)
{
    switch (r) {
    case 0: return "return " + X + ";";
    case 1: return "int l = " + X + "; return l;";
    case 2: return "if (" + X + " > 1) return 2; return 1;";
    case 3: return "int la[3]; la[" + X + " % 3] = 1; return 2;";          // read only inside an assignment target
    case 4: return "return id(" + X + ");";
    case 5: return "int l = 1; l += " + X + "; return l;";
    case 6: return "int l = 1; while (l < " + X + ") l++; return l;";
    case 7: return "int l = 0; for (k : int[0,1]) l = l + (" + X + " > k ? 1 : 0); return l + 1;";
    case 8: return "int la[2] = { " + X + ", 1 }; return la[0];";                        // read only in the initialiser list of a local array
    case 9: return "struct { int f; int g; } ls = { 1, " + X + " }; return ls.g;";         // ... of a local record
    case 10: return "{ { int inner = " + X + "; return inner; } }";                         // ... of a local in a nested block
    }
    return "";
}

enum { C_ARRSIZE, C_RANGE, C_SCALAR, C_GINIT, C_LINIT, C_VALARG, C_CREFARG, C_LARRSIZE, C_LRANGE, C_STRUCTARR, C_ARR_INNER, C_ARR_INNER3, C_ELEMRANGE, C_TYPEDEF_ROW, C_STRUCT_INNER, C_FUNLOCAL_ARR, NCTX };
static const char* CTXNAME[] = {"array-size", "range-bound", "scalar-set-size", "global-initialiser", "template-initialiser", "value-argument", "const-ref-argument", "template-array-size", "template-range-bound", "array-size-in-struct", "inner-array-dimension", "third-array-dimension", "element-range-of-an-array", "row-typedef-size", "inner-dimension-in-struct", "function-local-inner-dimension"};

static std::string model(int ctx, const std::string& decls, const std::string& E)
{
    std::string s = "const int K = 2; int v = 2; int id(int a) { return a; }\nconst int carr[4] = {1, 2, 3, 4}; const struct { int f; } crec[3] = {{1}, {2}, {3}};\n" + decls;
    switch (ctx) {
    case C_ARRSIZE: s += "int arr[" + E + "];\n"; break;
    case C_RANGE: s += "int[0, " + E + "] rv;\n"; break;
    case C_SCALAR: s += "typedef scalar[" + E + "] SS; SS sv;\n"; break;
    case C_GINIT: s += "int gi = " + E + ";\n"; break;
    case C_STRUCTARR: s += "struct { int f[" + E + "]; } sa;\n"; break;
    // the expression may sit in any dimension of the declarator, in the element type, behind a typedef, in a field, in a function's local
    case C_ARR_INNER: s += "int arr2[2][" + E + "];\n"; break;
    case C_ARR_INNER3: s += "int arr3[2][K][" + E + " + 1];\n"; break;
    case C_ELEMRANGE: s += "int[0, " + E + "] arr4[2];\n"; break;
    case C_TYPEDEF_ROW: s += "typedef int row_t[" + E + "]; row_t rows[2];\n"; break;
    case C_STRUCT_INNER: s += "struct { int f[2][" + E + "]; } sb;\n"; break;
    case C_FUNLOCAL_ARR: s += "void hf() { int la[2][" + E + "]; la[0][0] = 1; }\n"; break;
    }
    s += "process Q(" + std::string(ctx == C_CREFARG ? "const int& p" : "int p") + ") { state S0; init S0; }\n";
    s += "process P() {\n";
    if (ctx == C_LINIT) s += " int li = " + E + ";\n";
    if (ctx == C_LARRSIZE) s += " int larr[" + E + "];\n";
    if (ctx == C_LRANGE) s += " int[0, " + E + "] lrv;\n";
    s += " state A; init A;\n}\n";
    if (ctx == C_VALARG || ctx == C_CREFARG) s += "Q0 = Q(" + E + ");\nsystem P, Q0;\n"; else s += "system P;\n";
    return s;
}

extern "C" void harness_chain()  /* vf: bounds=16_contexts(incl._inner_dimensions,element_ranges,row_typedefs,struct_fields,function_locals)_x_chain_length_0..2_(links:const_initialiser,function_body,arithmetic,element_of_a_constant_array,inline-if_between_constants)_x_11_function_read_forms_x_3_terminals(literal,const,mutable) */
{
    int ctx = vf_pick("!context", NCTX), term = vf_pick("!terminal", NTERM), len = vf_range("!length", 0, 2);
#ifndef VF_TIER_THOROUGH
    vf_assume(len < 2 || ctx == C_ARRSIZE || ctx == C_SCALAR || ctx == C_VALARG || ctx == C_LARRSIZE || ctx == C_ARR_INNER || ctx == C_FUNLOCAL_ARR);   // quick tier: chains of two links in six of the contexts
#endif
    std::string decls, E = TERM[term];
    for (int i = 0; i < len; i++) {
        int link = vf_pick("!link", NLINK);
        std::string n = std::to_string(i);
        if (link == L_CONST) { decls += "const int c" + n + " = " + E + ";\n"; E = "c" + n; }
        else if (link == L_FUN) { int r = vf_pick("!read", NREAD); decls += "int f" + n + "() { " + fbody(r, E) + " }\n"; E = "f" + n + "()"; }
        else if (link == L_CONSTARR) E = "carr[" + E + " % 3]";             // an element of a constant array is const-typed, yet reads its index
        else if (link == L_CONSTIF) E = "(" + E + " > 0 ? crec[1].f : carr[0])";   // an inline-if between constants is const-typed, yet reads its condition
        else E = "(" + E + " + 1)";
    }
    Model m;
    bool ok = m.load(model(ctx, decls, E));
    vf_note(CTXNAME[ctx]); vf_note(decls.c_str()); vf_note(E.c_str()); vf_notei("accepted", ok);
    if (!ok) note_errors(m.doc);
    if (term == T_MUT) vf_assert(!ok, "dependence-on-mutable-rejected");
    else vf_assert(ok, "constant-expression-accepted");
    vf_reach("end");
}

extern "C" void harness_chain3()  /* vf: tier=thorough bounds=16_contexts_x_chain_length_3_x_8_function_read_forms_x_3_terminals */
{
    int ctx = vf_pick("!context", NCTX), term = vf_pick("!terminal", NTERM);
    std::string decls, E = TERM[term];
    for (int i = 0; i < 3; i++) {
        int link = vf_pick("!link", NLINK);
        std::string n = std::to_string(i);
        if (link == L_CONST) { decls += "const int c" + n + " = " + E + ";\n"; E = "c" + n; }
        else if (link == L_FUN) { int r = vf_pick("!read", 8);   /* chains of three: the eight read forms through statements; the initialiser forms are covered by chains of up to two */ decls += "int f" + n + "() { " + fbody(r, E) + " }\n"; E = "f" + n + "()"; }
        else if (link == L_CONSTARR) E = "carr[" + E + " % 3]";
        else if (link == L_CONSTIF) E = "(" + E + " > 0 ? crec[1].f : carr[0])";
        else E = "(" + E + " + 1)";
    }
    Model m;
    bool ok = m.load(model(ctx, decls, E));
    vf_note(CTXNAME[ctx]); vf_note(decls.c_str()); vf_note(E.c_str()); vf_notei("accepted", ok);
    if (term == T_MUT) vf_assert(!ok, "dependence-on-mutable-rejected");
    else vf_assert(ok, "constant-expression-accepted");
    vf_reach("end");
}

// free process parameters must never reach an array size (or a select / scalar-set size), directly or through template-local constants
extern "C" void harness_free_parameter()  /* vf: bounds=process_parameter_left_free_or_bound_along_6_routes(system_line,direct,partial_instantiation,argument_expression,chains_of_partial_instantiations)_reaching_(array_size,scalar_set_size,select_range,array_size_in_local_typedef)_through_0..3_template-local_constants_or_a_function */
{
    // route: how the parameter stays free or gets bound - 0 'system P' (free), 1 bound directly, 2 free through a partial instantiation,
    // 3 free through an argument expression of a partial instantiation, 4 free through a chain of two partial instantiations, 5 bound at the end of such a chain
    int use = vf_pick("!use", 4), len = vf_range("!length", 0, 3), route = vf_pick("!bound", 6), viafun = vf_pick("!via_function", 2);
    bool bound = route == 1 || route == 5;
    std::string s = "const int K = 2;\nprocess P(const int[1,2] p, const int[0,1] m) {\n";
    std::string E = "p";
    for (int i = 0; i < len; i++) { std::string n = std::to_string(i); s += " const int c" + n + " = " + E + " + 1;\n"; E = "c" + n; }
    if (viafun) { s += " int f() { return " + E + "; }\n"; E = "f()"; }
    std::string sel;
    switch (use) {
    case 0: s += " int larr[" + E + "];\n"; break;
    case 1: s += " typedef scalar[" + E + "] LS; LS ls;\n"; break;
    case 2: sel = " select k : int[0, " + E + "];"; break;
    case 3: s += " typedef int LA[" + E + "]; LA la;\n"; break;
    }
    s += " state A, B; init A;\n trans A -> B {" + sel + " };\n}\n";
    switch (route) {
    case 0: s += "system P;\n"; break;
    case 1: s += "P0 = P(1, 0);\nsystem P0;\n"; break;
    case 2: s += "Q(const int[1,2] k) = P(k, 1);\nsystem Q;\n"; break;
    case 3: s += "Q(const int[0,1] k) = P(k + 1, 1);\nsystem Q;\n"; break;
    case 4: s += "Q(const int[1,2] k, const int[0,1] n) = P(k, n);\nR(const int[1,2] j) = Q(j, 1);\nsystem R;\n"; break;
    case 5: s += "Q(const int[1,2] k, const int[0,1] n) = P(k, n);\nR(const int[0,1] j) = Q(2, j);\nsystem R;\n"; break;
    }
    Model m;
    bool ok = m.load(s);
    vf_note(s.c_str()); vf_notei("accepted", ok);
    if (!ok) note_errors(m.doc);
    // the property: a free process parameter is never accepted inside an array size (use 0 and 3); for the other uses nothing is demanded of the free case
    if (!bound && (use == 0 || use == 3)) vf_assert(!ok, "free-parameter-in-array-size-rejected");
    if (bound) vf_assert(ok, "bound-parameter-accepted");
    vf_reach("end");
}
