// C04: the document built from an XML model mirrors the XML's structure exactly.
// Real code: XMLReader::project / templ / location / branchpoint / init / transition / source / target / label / invariant / parameter / declaration /
// instantiation / system and the Path bookkeeping (over the libxml2 reader model), the grammar entry points of every text block, DocumentBuilder::proc_* /
// instantiation_* / process, Document::add_* and template_t::add_*.
// Symbolic: edge endpoints (locations and branchpoint, self loops, parallel edges), controllable attribute, initial location, named / anonymous
// locations, urgent / committed, invariant and rate labels, presence of each label kind on each edge of two templates, parameters and instantiation forms.
// Oracle: the abstract model the harness itself rendered; compared field by field, in source order, through the Document's public members.
#include "xmlmodel.h"

static const char* GDECL = "int g; int h; clock x; clock y; chan c; broadcast chan bc; const int K = 2;";

static void mismatch(const std::string& what, const std::string& got, const std::string& want) { vf_note(("MISMATCH " + what + ": got '" + got + "' want '" + want + "'").c_str()); }
static bool eq(const std::string& what, const std::string& got, const std::string& want) { if (got != want) { mismatch(what, got, want); return false; } return true; }

// field-by-field comparison of one template with its abstract model; returns the number of mismatches
static int compare_template(template_t& t, const MTemplate& m)
{
    int bad = 0;
    std::string tn = m.name + ".";
    bad += !eq(tn + "name", t.uid.get_name(), m.name);
    bad += !eq(tn + "#locations", std::to_string(t.locations.size()), std::to_string(m.locs.size()));
    for (size_t i = 0; i < t.locations.size() && i < m.locs.size(); i++) {
        auto& l = t.locations[i]; auto& ml = m.locs[i];
        std::string ln = tn + "loc" + std::to_string(i) + ".";
        bad += !eq(ln + "name", l.uid.get_name(), loc_name(ml));
        bad += !eq(ln + "nr", std::to_string(l.nr), std::to_string(i));
        bad += !eq(ln + "invariant", xs(l.invariant), ml.inv.empty() ? "-" : ml.inv);
        bad += !eq(ln + "rate", xs(l.exp_rate), ml.rate.empty() ? "-" : ml.rate);
        bad += !eq(ln + "urgent", l.uid.get_type().is(URGENT) ? "1" : "0", ml.urgent ? "1" : "0");
        bad += !eq(ln + "committed", l.uid.get_type().is(COMMITTED) ? "1" : "0", ml.committed ? "1" : "0");
    }
    bad += !eq(tn + "#branchpoints", std::to_string(t.branchpoints.size()), std::to_string(m.bps.size()));
    for (size_t i = 0; i < t.branchpoints.size() && i < m.bps.size(); i++) bad += !eq(tn + "bp" + std::to_string(i), t.branchpoints[i].uid.get_name(), "_" + m.bps[i]);
    bad += !eq(tn + "init", t.init == symbol_t() ? "NONE" : t.init.get_name(), loc_name(m.locs[m.init]));
    bad += !eq(tn + "#edges", std::to_string(t.edges.size()), std::to_string(m.edges.size()));
    for (size_t i = 0; i < t.edges.size() && i < m.edges.size(); i++) {
        auto& e = t.edges[i]; auto& me = m.edges[i];
        std::string en = tn + "edge" + std::to_string(i) + ".";
        bad += !eq(en + "nr", std::to_string(e.nr), std::to_string(i));
        bad += !eq(en + "source", end_name(e.src, e.srcb), me.src_bp ? "B:_" + m.bps[me.src] : "L:" + loc_name(m.locs[me.src]));
        bad += !eq(en + "target", end_name(e.dst, e.dstb), me.dst_bp ? "B:_" + m.bps[me.dst] : "L:" + loc_name(m.locs[me.dst]));
        bad += !eq(en + "control", e.control ? "1" : "0", edge_control(me) ? "1" : "0");
        std::string sel, wantsel;
        for (size_t k = 0; k < e.select.get_size(); k++) sel += (k ? ", " : "") + e.select[k].get_name() + " : " + tstr(e.select[k].get_type());
        {   // expected: every binder of the label, in order, as a constant of its range
            size_t p = 0; bool first = true;
            while (p < me.select.size()) {
                size_t c = me.select.find(':', p), q = me.select.find(", ", c);
                std::string nm = me.select.substr(p, c - p); while (!nm.empty() && nm.back() == ' ') nm.pop_back();
                wantsel += std::string(first ? "" : ", ") + nm + " : (const (range (int) \"0\" \"2\"))"; first = false;
                if (q == std::string::npos) break; p = q + 2;
            }
        }
        bad += !eq(en + "select", sel, wantsel);
        // uses of a binder's name in the edge's labels bind to the binder, not to a shadowed outer declaration
        for (size_t k = 0; k < e.select.get_size(); k++) {
            std::function<bool(const expression_t&)> ok = [&](const expression_t& x) { if (x.empty()) return true; if (x.get_kind() == IDENTIFIER && x.get_symbol().get_name() == e.select[k].get_name() && x.get_symbol() != e.select[k]) return false; for (size_t c = 0; c < x.get_size(); c++) if (!ok(x.get(c))) return false; return true; };
            bad += !eq(en + "binding of " + e.select[k].get_name(), ok(e.guard) && ok(e.assign) && ok(e.sync) ? "binder" : "outer", "binder");
        }
        bad += !eq(en + "guard", xs(e.guard), me.guard.empty() ? "1" : me.guard);      // an absent guard is the constant true
        bad += !eq(en + "sync", xs(e.sync), me.sync.empty() ? "-" : me.sync);
        bad += !eq(en + "assign", xs(e.assign), me.assign.empty() ? "1" : me.assign);
        bad += !eq(en + "prob", xs(e.prob), me.prob.empty() ? "1" : me.prob);           // an absent probability weight is the constant 1
    }
    return bad;
}
static void run_and_compare(const MModel& m, bool check_processes = false)
{
    XmlDoc d = render_xml(m);
    Document doc;
    DocumentBuilder b(doc);
    bool threw = false;
    try { parse_xml(d, &b); } catch (std::exception& e) { threw = true; vf_note(e.what()); }
    vf_assert(!threw, "well-formed-model-parsed-without-exception");
    if (threw) return;
    if (doc.has_errors()) note_errors(doc);
    vf_assert(!doc.has_errors(), "well-formed-model-accepted-by-builder");
    int bad = 0;
    bad += !eq("#templates", std::to_string(doc.get_templates().size()), std::to_string(m.templs.size()));
    size_t i = 0;
    for (auto& t : doc.get_templates()) { if (i < m.templs.size()) bad += compare_template(t, m.templs[i]); i++; }
    vf_assert(bad == 0, "document-mirrors-xml");
    assert_invariants(doc, true);
}

static MTemplate base_template(const std::string& name, int k)
{
    MTemplate t; t.name = name;
    t.locs = {MLoc{"id" + std::to_string(10 * k), "A"}, MLoc{"id" + std::to_string(10 * k + 1), "B"}, MLoc{"id" + std::to_string(10 * k + 2), "C"}};
    t.bps = {"id" + std::to_string(10 * k + 5)};
    t.init = 0;
    return t;
}

extern "C" void harness_endpoints()  /* vf: bounds=1_template,3_locations,1_branchpoint,2_edges:each_endpoint_any_location_or_the_branchpoint(not_both),self_loops,parallel_edges;controllable_attribute_absent/true/false */
{
    MModel m; m.gdecl = GDECL; m.system = "system T;";
    MTemplate t = base_template("T", 0);
    for (int e = 0; e < 2; e++) {
        MEdge me;
        std::string n = std::to_string(e);
        int s = vf_pick(("!src" + n).c_str(), 4), d = vf_pick(("!dst" + n).c_str(), 4);
        vf_assume(!(s == 3 && d == 3));
        me.src_bp = s == 3; me.src = s == 3 ? 0 : s; me.dst_bp = d == 3; me.dst = d == 3 ? 0 : d;
        me.ctrl = e == 0 ? vf_pick("!controllable0", 3) : 0;
        me.guard = "g < " + std::to_string(10 + e);
        me.assign = "h = " + std::to_string(20 + e);
        t.edges.push_back(me);
    }
    m.templs.push_back(t);
    run_and_compare(m);
    vf_reach("end");
}

extern "C" void harness_locations()  /* vf: bounds=2_templates_x_3_locations:named/anonymous,white_space_around_names(6_paddings),urgent/committed,invariant_and/or_rate_label,followed_or_not_by_comments_labels,initial_location_index;second_template_fixed */
{
    MModel m; m.gdecl = GDECL; m.system = "system T, U;";
    MTemplate t = base_template("T", 0), u = base_template("U", 1);
    t.init = vf_pick("!init", 3);
    for (int l = 0; l < 3; l++) if (vf_pick(("!anonymous" + std::to_string(l)).c_str(), 2)) t.locs[l].name = "";
    int fl = vf_pick("!flag2", 3), fl1 = vf_pick("!flag1", 3);
    t.locs[2].urgent = fl == 1; t.locs[2].committed = fl == 2;
    t.locs[1].urgent = fl1 == 1; t.locs[1].committed = fl1 == 2;
    static const char* PADS[][2] = {{"", ""}, {" ", ""}, {"", " "}, {"  ", "  "}, {"\n      ", "\n    "}, {"\t", "\r\n"}};
    int pad = vf_pick("!name_padding", 6);
    xml_name_pad_left = PADS[pad][0]; xml_name_pad_right = PADS[pad][1];
    int lab = vf_pick("!labels0", 4), lab1 = vf_pick("!labels1", 2);
    vf_assume(pad == 0 || (fl == 0 && fl1 == 0 && lab == 0));   // padding varies with the naming and the initial location only
    if (lab & 1) t.locs[0].inv = "x <= 5";
    if (lab & 2) t.locs[0].rate = "3";
    if (lab1) t.locs[1].inv = "y <= 7";
    // a comments label (as the editor writes it for a location or edge with a comment) after the labels that carry meaning
    int cm = vf_pick("!comments_labels", 4);
#ifndef VF_TIER_THOROUGH
    vf_assume(cm == 0 || (pad == 0 && fl == 0 && fl1 == 0));   // quick tier: comments vary with the labels, the naming and the initial location
#endif
    if (cm & 1) { t.locs[0].comment = "waits for the signal"; t.locs[1].comment = "n/a"; }
    if (cm & 2) u.locs[1].comment = "remark";
    u.locs[1].inv = "x <= 9"; u.locs[2].committed = true; u.init = 1;
    MEdge e; e.src = 0; e.dst = 1; e.guard = "g < 1"; if (cm & 1) e.comment = "taken once"; t.edges.push_back(e);
    MEdge f; f.src = 1; f.dst = 2; f.assign = "h = 2"; u.edges.push_back(f);
    m.templs.push_back(t); m.templs.push_back(u);
    run_and_compare(m);
    vf_reach("end");
}

extern "C" void harness_labels()  /* vf: bounds=2_templates:presence_of_select(fresh,shadowing_a_global,two_binders)/guard/synchronisation/assignment/probability_on_edge_0,guard/assignment_on_edge_1,guard/sync_on_the_edge_of_template_2;each_label_with_a_distinct_text */
{
    MModel m; m.gdecl = GDECL; m.system = "system T, U;";
    MTemplate t = base_template("T", 0), u = base_template("U", 1);
    int l0 = vf_pick("!labels_edge0", 32), l1 = vf_pick("!labels_edge1", 4), l2 = vf_pick("!labels_other_template", 4);
    // how the text blocks are written: escaped text, or CDATA sections (labels / declarations and system / both)
    xml_cdata_mask = vf_pick("!cdata_sections", 4);
#ifndef VF_TIER_THOROUGH
    vf_assume(xml_cdata_mask == 0 || (l1 == 3 && l2 == 3));
#endif
    MEdge e0; e0.src = 0; e0.dst = 1;
    int sf = vf_pick("!select_form", 3);
    static const char* SEL[] = {"k : int[0,2]", "g : int[0,2]", "k : int[0,2], h : int[0,2]"};   // fresh binder, binder shadowing a global, two binders (one shadowing)
    if (l0 & 1) e0.select = SEL[sf];
    if (l0 & 2) e0.guard = "g < 10 && x >= 2";
    if (l0 & 4) e0.sync = "c!";
    if (l0 & 8) e0.assign = "h = 20, x = 0";
    if (l0 & 16) e0.prob = "3";
    MEdge e1; e1.src = 1; e1.dst = 2;
    if (l1 & 1) e1.guard = "g < 11";
    if (l1 & 2) e1.assign = "h = 21";
    MEdge e2; e2.src = 2; e2.dst = 0; e2.sync = "bc?";
    t.edges = {e0, e1, e2};
    MEdge f; f.src = 0; f.dst = 0;
    if (l2 & 1) f.guard = "g < 12";
    if (l2 & 2) f.sync = "c?";
    u.edges = {f};
    m.templs = {t, u};
    run_and_compare(m);
    xml_cdata_mask = 0;
    vf_reach("end");
}

// each template gets exactly its own parameters, whatever kind of template precedes it (with or without parameters, ordinary or the definition
// of a template declared dynamic in the global declarations)
extern "C" void harness_template_parameters()  /* vf: bounds=3_templates_in_a_row,each_ordinary_or_dynamic(declared_in_the_global_declarations),with_0..2_parameters(value,const,reference) reach=end */
{
    static const char* PARAMS[] = {"", "int[0,3] id", "const int a, int &r"};
    static const char* PNAMES[][2] = {{nullptr, nullptr}, {"id", nullptr}, {"a", "r"}};
    MModel m; m.gdecl = GDECL;
    int kind[3], np[3];
    const char* names[3] = {"W", "T", "V"};
    for (int i = 0; i < 3; i++) { std::string n = std::to_string(i); kind[i] = vf_pick(("!dynamic" + n).c_str(), 2); np[i] = vf_pick(("!parameters" + n).c_str(), 3); }
    vf_assume(!(kind[1] && kind[2]));   // at most two dynamic templates
    for (int i = 0; i < 3; i++) {
        MTemplate t = base_template(names[i], i);
        t.params = PARAMS[np[i]];
        MEdge e; e.src = 0; e.dst = 1; e.guard = "g < 1" + std::to_string(i); t.edges = {e};
        if (kind[i]) m.gdecl += std::string(" dynamic ") + names[i] + "(" + PARAMS[np[i]] + ");";
        m.templs.push_back(t);
    }
    // the system line lists the ordinary templates without parameters (or nothing but a filler process)
    MTemplate f = base_template("F", 3); m.templs.push_back(f);
    m.system = "system F;";
    XmlDoc d = render_xml(m);
    Document doc; DocumentBuilder b(doc);
    bool threw = false;
    try { parse_xml(d, &b); } catch (std::exception& ex) { threw = true; vf_note(ex.what()); }
    vf_assert(!threw, "well-formed-model-parsed-without-exception");
    if (threw) return;
    if (doc.has_errors()) note_errors(doc);
    vf_assert(!doc.has_errors(), "well-formed-model-accepted-by-builder");
    int bad = 0;
    auto find = [&](const char* n) -> template_t* {
        for (auto& t : doc.get_templates()) if (t.uid.get_name() == n) return &t;
        for (auto* t : doc.get_dynamic_templates()) if (t->uid.get_name() == n) return t;
        return nullptr; };
    for (int i = 0; i < 4; i++) {
        const char* n = i < 3 ? names[i] : "F";
        template_t* t = find(n);
        bad += !eq(std::string(n) + " present", t ? "1" : "0", "1");
        if (!t) continue;
        int want = i < 3 ? (np[i] == 0 ? 0 : np[i] == 1 ? 1 : 2) : 0;
        bad += !eq(std::string(n) + ".#parameters", std::to_string(t->parameters.get_size()), std::to_string(want));
        for (int k = 0; k < want && k < (int)t->parameters.get_size(); k++) bad += !eq(std::string(n) + ".parameter" + std::to_string(k), t->parameters[k].get_name(), PNAMES[np[i]][k]);
        bad += !eq(std::string(n) + ".unbound", std::to_string(t->unbound), std::to_string(want));
        bad += !eq(std::string(n) + ".#locations", std::to_string(t->locations.size()), "3");
        bad += !eq(std::string(n) + ".#edges", std::to_string(t->edges.size()), i < 3 ? "1" : "0");
    }
    int ordinary = 1; for (int i = 0; i < 3; i++) ordinary += !kind[i];
    bad += !eq("#templates", std::to_string(doc.get_templates().size()), std::to_string(ordinary));
    vf_assert(bad == 0, "document-mirrors-xml");
    assert_invariants(doc, true);
    vf_reach("end");
}

// parameters and instantiation: every argument bound to the positionally corresponding parameter
extern "C" void harness_instantiation()  /* vf: bounds=template_with_3_parameters(value,const,reference);9_system_forms(full,partial,chained_partial,reordered_declaration,priorities);argument_expressions_distinct */
{
    MModel m; m.gdecl = GDECL;
    MTemplate t = base_template("T", 0);
    t.params = "int a, const int b, int &r";
    MEdge e; e.src = 0; e.dst = 1; e.guard = "a < b"; e.assign = "r = a"; t.edges = {e};
    m.templs = {t};
    struct Form { const char* text; std::vector<const char*> procs; std::vector<std::vector<const char*>> maps; };
    // expected mapping per process: parameter name -> printed argument ("" = unbound)
    static const Form FORMS[] = {
        {"P1 = T(1, 2, g); system P1;", {"P1"}, {{"a", "1", "b", "2", "r", "g"}}},
        {"P1 = T(1, 2, g); P2 = T(3, 4, h); system P1, P2;", {"P1", "P2"}, {{"a", "1", "b", "2", "r", "g"}, {"a", "3", "b", "4", "r", "h"}}},
        {"P2 = T(3, 4, h); P1 = T(1, 2, g); system P1, P2;", {"P1", "P2"}, {{"a", "1", "b", "2", "r", "g"}, {"a", "3", "b", "4", "r", "h"}}},
        {"Q(const int z) = T(z, 7, g); P1 = Q(5); system P1;", {"P1"}, {{"z", "5", "a", "z", "b", "7", "r", "g"}}},
        {"Q(const int z, int &s) = T(7, z, s); P1 = Q(5, h); system P1;", {"P1"}, {{"z", "5", "s", "h", "a", "7", "b", "z", "r", "s"}}},
        {"Q(const int z, int &s) = T(z, 7, s); R(int &s2) = Q(9, s2); P1 = R(g); system P1;", {"P1"}, {{"s2", "g", "z", "9", "s", "s2", "a", "z", "b", "7", "r", "s"}}},
        {"P1 = T(1, 2, g); P2 = T(3, 4, h); system P1 < P2;", {"P1", "P2"}, {{"a", "1", "b", "2", "r", "g"}, {"a", "3", "b", "4", "r", "h"}}},
        {"P1 = T(K, K + 1, g); system P1;", {"P1"}, {{"a", "K", "b", "K + 1", "r", "g"}}},
        {"P1 = T(1, 2, g); P2 = T(3, 4, h); system P2, P1;", {"P2", "P1"}, {{"a", "3", "b", "4", "r", "h"}, {"a", "1", "b", "2", "r", "g"}}}};
    int f = vf_pick("!form", 9);
    m.system = FORMS[f].text;
    XmlDoc d = render_xml(m);
    Document doc;
    bool threw = false;
    try { parse_xml(d, &doc); } catch (std::exception& ex) { threw = true; vf_note(ex.what()); }
    vf_assert(!threw, "well-formed-model-parsed-without-exception");
    if (threw) return;
    if (doc.has_errors()) note_errors(doc);
    vf_assert(!doc.has_errors(), "well-formed-model-accepted");
    int bad = 0;
    auto& ps = doc.get_processes();
    bad += !eq("#processes", std::to_string(ps.size()), std::to_string(FORMS[f].procs.size()));
    size_t i = 0;
    for (auto& p : ps) {
        if (i >= FORMS[f].procs.size()) break;
        bad += !eq("process name", p.uid.get_name(), FORMS[f].procs[i]);
        bad += !eq("process template", p.templ ? p.templ->uid.get_name() : "?", "T");
        auto& want = FORMS[f].maps[i];
        bad += !eq("process #mapping", std::to_string(p.mapping.size()), std::to_string(want.size() / 2));
        bad += !eq("process unbound", std::to_string(p.unbound), "0");
        for (size_t k = 0; k + 1 < want.size(); k += 2) {
            std::string got = "<unmapped>";
            for (auto& [sym, ex] : p.mapping) if (sym.get_name() == want[k]) got = xs(ex);
            bad += !eq(std::string("process ") + FORMS[f].procs[i] + " " + want[k], got, want[k + 1]);
        }
        i++;
    }
    // template parameters in order
    auto& tt = doc.get_templates().front();
    bad += !eq("#parameters", std::to_string(tt.parameters.get_size()), "3");
    static const char* PN[] = {"a", "b", "r"};
    for (size_t k = 0; k < 3 && k < tt.parameters.get_size(); k++) bad += !eq("parameter", tt.parameters[k].get_name(), PN[k]);
    if (tt.parameters.get_size() == 3) {
        bad += !eq("parameter r is a reference", tt.parameters[2].get_type().is(REF) ? "1" : "0", "1");
        bad += !eq("parameter b is const", tt.parameters[1].get_type().is_constant() ? "1" : "0", "1");
    }
    vf_assert(bad == 0, "instantiation-mirrors-xml");
    assert_invariants(doc, true);
    vf_reach("end");
}
