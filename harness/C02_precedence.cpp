// C02: parsed expression trees follow the language's precedence and associativity; literals are exact or rejected.
// Real code: lexer (operators, keyword aliases via find_keyword, {num} rule with overflow detection and the INT_MIN special case, floating rule),
// grammar (Expression / Assignment / UnaryOp productions with %prec, precedence declarations), ExpressionBuilder callbacks (expr_binary,
// expr_unary, expr_assignment, expr_inline_if, expr_call_*, expr_array, expr_dot, expr_post/pre_*, quantifiers), expression_t factories.
// Symbolic: the operator tokens (all binary operators and their keyword aliases, unary operators, the assignment family), the shape, literal digits.
// Oracle: the operator table of the UPPAAL language reference (levels and associativity below), keyword aliases on the level of their symbolic forms.
#include "common.h"
#include <climits>

static const char* DECLS = "int a; int b; int c; int d; int e; int arr[4]; struct { int f; int g; } r; int fn(int p, int q) { return p; }\n";

// ---- operator table (from the language reference): smaller level binds tighter; all binary operators are left-associative
struct BinOp { const char* tok; int level; kind_t kind; bool imply; };
static const BinOp BINOPS[] = {
    {"*", 3, MULT}, {"/", 3, DIV}, {"%", 3, MOD}, {"+", 4, PLUS}, {"-", 4, MINUS}, {"<<", 5, BIT_LSHIFT}, {">>", 5, BIT_RSHIFT}, {"<?", 6, MIN}, {">?", 6, MAX},
    {"<", 7, LT}, {"<=", 7, LE}, {">=", 7, GE}, {">", 7, GT}, {"==", 8, EQ}, {"!=", 8, NEQ}, {"&", 9, BIT_AND}, {"^", 10, BIT_XOR}, {"|", 11, BIT_OR},
    {"&&", 12, AND}, {"and", 12, AND}, {"||", 13, OR}, {"or", 13, OR}, {"xor", 13, XOR}, {"imply", 13, OR, true}};
static const int NBIN = sizeof BINOPS / sizeof BINOPS[0];
struct UnOp { const char* tok; int kind; };   // kind -1: identity (unary plus)
static const UnOp UNOPS[] = {{"-", UNARY_MINUS}, {"+", -1}, {"!", NOT}, {"not ", NOT}};
static const int NUN = 4;
struct AsgOp { const char* tok; kind_t kind; };
static const AsgOp ASGOPS[] = {{"=", ASSIGN}, {":=", ASSIGN}, {"+=", ASS_PLUS}, {"-=", ASS_MINUS}, {"*=", ASS_MULT}, {"/=", ASS_DIV}, {"%=", ASS_MOD}, {"|=", ASS_OR}, {"&=", ASS_AND}, {"^=", ASS_XOR}, {"<<=", ASS_LSHIFT}, {">>=", ASS_RSHIFT}};
static const int NASG = sizeof ASGOPS / sizeof ASGOPS[0];

// ---- expected trees
struct T { int kind; std::string id; int value; std::vector<T> sub; };
static T id(const char* n) { return T{IDENTIFIER, n, 0, {}}; }
static T num(int v) { return T{CONSTANT, "", v, {}}; }
static T node(int k, std::vector<T> s) { return T{k, "", 0, std::move(s)}; }
static T bin(const BinOp& o, T l, T r) { if (o.imply) return node(OR, {node(NOT, {std::move(l)}), std::move(r)}); return node(o.kind, {std::move(l), std::move(r)}); }
static T un(const UnOp& o, T x) { if (o.kind < 0) return x; return node(o.kind, {std::move(x)}); }
static bool same(const expression_t& e, const T& t)
{
    if (e.empty() || (int)e.get_kind() != t.kind) return false;
    if (t.kind == IDENTIFIER) return e.get_symbol().get_name() == t.id;
    if (t.kind == CONSTANT) return e.get_type().is_integral() && e.get_value() == t.value;
    if (t.kind == DOT) return e.get_size() == 1 && same(e.get(0), t.sub[0]) && e.get(0).get_type().get_record_label(e.get_index()) == t.id;
    if (e.get_size() != t.sub.size()) return false;
    for (size_t k = 0; k < t.sub.size(); k++) if (!same(e.get(k), t.sub[k])) return false;
    return true;
}
static void expect(Ctx& cx, const std::string& text, const T& t, const char* what)
{
    size_t n0 = cx.nerr();
    expression_t e = cx.expr(text.c_str());
    vf_note(text.c_str());
    if (cx.nerr() == n0 && !e.empty()) vf_note(e.str().c_str()); else note_errors(cx.doc, n0);
    vf_assert(cx.nerr() == n0 && !e.empty(), "valid-expression-accepted");
    vf_assert(same(e, t), what);
}
// oracle for `x op1 y op2 z`
static T two(const BinOp& o1, const BinOp& o2, T x, T y, T z)
{
    if (o1.level <= o2.level) return bin(o2, bin(o1, std::move(x), std::move(y)), std::move(z));   // tighter or equal (left-assoc): (x o1 y) o2 z
    return bin(o1, std::move(x), bin(o2, std::move(y), std::move(z)));
}

extern "C" void harness_binary_pairs()  /* vf: bounds=a_op1_b_op2_c_over_all_24x24_binary_operator_tokens_incl._keyword_aliases;plus_both_explicit_parenthesisations */
{
    Ctx cx;
    vf_assert(cx.declare(DECLS) == 0, "declarations-accepted");
    int i1 = vf_pick("op1", NBIN), i2 = vf_pick("op2", NBIN);   // lazy symbolic picks: the engine forks on the operator-table look-ups, each fork is a solver-checked path condition
    const BinOp &o1 = BINOPS[i1], &o2 = BINOPS[i2];
    std::string s1 = std::string(" ") + o1.tok + " ", s2 = std::string(" ") + o2.tok + " ";
    expect(cx, "a" + s1 + "b" + s2 + "c", two(o1, o2, id("a"), id("b"), id("c")), "nesting-follows-operator-table");
    expect(cx, "(a" + s1 + "b)" + s2 + "c", bin(o2, bin(o1, id("a"), id("b")), id("c")), "left-parenthesisation-respected");
    expect(cx, "a" + s1 + "(b" + s2 + "c)", bin(o1, id("a"), bin(o2, id("b"), id("c"))), "right-parenthesisation-respected");
    vf_reach("end");
}

extern "C" void harness_binary_triples()  /* vf: tier=thorough bounds=a_op1_b_op2_c_op3_d_over_one_representative_per_precedence_level_and_alias(15_tokens)^3 */
{
    static const int REP[] = {0, 3, 5, 7, 9, 13, 15, 16, 17, 18, 19, 20, 21, 22, 23};
    Ctx cx;
    vf_assert(cx.declare(DECLS) == 0, "declarations-accepted");
    const BinOp &o1 = BINOPS[REP[vf_pick("op1", 15)]], &o2 = BINOPS[REP[vf_pick("op2", 15)]], &o3 = BINOPS[REP[vf_pick("op3", 15)]];
    // operator-precedence oracle for three operators: shunting with the table
    std::vector<T> vals{id("a")}; std::vector<const BinOp*> ops;
    const BinOp* seq[3] = {&o1, &o2, &o3}; const char* names[3] = {"b", "c", "d"};
    for (int k = 0; k < 3; k++) {
        while (!ops.empty() && ops.back()->level <= seq[k]->level) { T r = vals.back(); vals.pop_back(); T l = vals.back(); vals.pop_back(); vals.push_back(bin(*ops.back(), l, r)); ops.pop_back(); }
        ops.push_back(seq[k]); vals.push_back(id(names[k]));
    }
    while (!ops.empty()) { T r = vals.back(); vals.pop_back(); T l = vals.back(); vals.pop_back(); vals.push_back(bin(*ops.back(), l, r)); ops.pop_back(); }
    expect(cx, std::string("a ") + o1.tok + " b " + o2.tok + " c " + o3.tok + " d", vals[0], "nesting-follows-operator-table");
    vf_reach("end");
}

extern "C" void harness_unary_postfix()  /* vf: bounds=unary(-,+,!,not)_and_pre/post_++/--_against_every_binary_operator,in_both_operand_positions;unary_plus_is_identity;index/call/field_bind_tightest */
{
    Ctx cx;
    vf_assert(cx.declare(DECLS) == 0, "declarations-accepted");
    int shape = vf_pick("shape", 9), ib = vf_pick("op", NBIN), iu = vf_pick("unary", NUN);
    const BinOp& o = BINOPS[ib]; const UnOp& u = UNOPS[iu];
    std::string s = std::string(" ") + o.tok + " ";
    switch (shape) {
    case 0: expect(cx, std::string(u.tok) + "a" + s + "b", bin(o, un(u, id("a")), id("b")), "unary-binds-tighter-than-binary"); break;
    case 1: expect(cx, "a" + s + u.tok + "b", bin(o, id("a"), un(u, id("b"))), "unary-operand-on-the-right"); break;
    case 2: expect(cx, "a" + s + "b++", bin(o, id("a"), node(POST_INCREMENT, {id("b")})), "postfix-binds-tighter-than-binary"); break;
    case 3: expect(cx, "--a" + s + "b", bin(o, node(PRE_DECREMENT, {id("a")}), id("b")), "prefix-binds-tighter-than-binary"); break;
    case 4: expect(cx, std::string(u.tok) + "a--", un(u, node(POST_DECREMENT, {id("a")})), "postfix-binds-tighter-than-unary"); break;
    case 5: expect(cx, "arr[a" + s + "b]" + s + "c", bin(o, node(ARRAY, {id("arr"), bin(o, id("a"), id("b"))}), id("c")), "index-binds-tightest"); break;
    case 6: expect(cx, "fn(a" + s + "b, c)" + s + "d", bin(o, node(FUN_CALL, {id("fn"), bin(o, id("a"), id("b")), id("c")}), id("d")), "call-binds-tightest"); break;
    case 7: expect(cx, std::string(u.tok) + "r.g" + s + "r.f", bin(o, un(u, T{DOT, "g", 0, {id("r")}}), T{DOT, "f", 0, {id("r")}}), "field-access-binds-tightest"); break;
    case 8: expect(cx, std::string(u.tok) + " " + u.tok + "a" + s + u.tok + "arr[b]++", bin(o, un(u, un(u, id("a"))), un(u, node(POST_INCREMENT, {node(ARRAY, {id("arr"), id("b")})}))), "stacked-unary-operators"); break;
    }
    vf_reach("end");
}

extern "C" void harness_ternary_assignment_quantifier()  /* vf: bounds=inline-if_and_the_12_assignment_tokens_and_quantifiers_against_every_binary_operator;right-associativity_of_?:_and_assignment */
{
    Ctx cx;
    vf_assert(cx.declare(DECLS) == 0, "declarations-accepted");
    int shape = vf_pick("shape", 10), i1 = vf_pick("op1", NBIN), i2 = vf_pick("asg", NASG);
    const BinOp& o = BINOPS[i1]; const AsgOp& g = ASGOPS[i2];
    std::string s = std::string(" ") + o.tok + " ", gs = std::string(" ") + g.tok + " ";
    switch (shape) {
    case 0: expect(cx, "a" + s + "b ? c : d" + s + "e", node(INLINE_IF, {bin(o, id("a"), id("b")), id("c"), bin(o, id("d"), id("e"))}), "inline-if-binds-looser-than-binary"); break;
    case 1: expect(cx, "a ? b : c ? d : e", node(INLINE_IF, {id("a"), id("b"), node(INLINE_IF, {id("c"), id("d"), id("e")})}), "inline-if-right-associative"); break;
    case 2: expect(cx, "a" + gs + "b" + s + "c", node(g.kind, {id("a"), bin(o, id("b"), id("c"))}), "assignment-binds-looser-than-binary"); break;
    case 3: expect(cx, "a" + gs + "b" + gs + "c", node(g.kind, {id("a"), node(g.kind, {id("b"), id("c")})}), "assignment-right-associative"); break;
    case 4: expect(cx, "a" + gs + "b ? c : d", node(g.kind, {id("a"), node(INLINE_IF, {id("b"), id("c"), id("d")})}), "assignment-binds-looser-than-inline-if"); break;
    case 5: expect(cx, "a ? b : c" + gs + "d", node(INLINE_IF, {id("a"), id("b"), node(g.kind, {id("c"), id("d")})}), "assignment-in-else-branch-nests-inside-inline-if"); break;
    case 6: expect(cx, "forall (k : int[0,1]) a" + s + "b", node(FORALL, {id("k"), bin(o, id("a"), id("b"))}), "quantifier-body-extends-right"); break;
    case 7: expect(cx, "a" + s + "(exists (k : int[0,1]) b" + s + "c)", bin(o, id("a"), node(EXISTS, {id("k"), bin(o, id("b"), id("c"))})), "parenthesised-quantifier-operand"); break;
    case 8: expect(cx, "sum (k : int[0,1]) a ? b : c", node(SUM, {id("k"), node(INLINE_IF, {id("a"), id("b"), id("c")})}), "quantifier-body-includes-inline-if"); break;
    case 9: expect(cx, "a ? b" + s + "c : d", node(INLINE_IF, {id("a"), bin(o, id("b"), id("c")), id("d")}), "then-branch-is-a-full-expression"); break;
    }
    vf_reach("end");
}

// the tree does not depend on how the tokens are separated (blanks, line breaks, block and line comments) nor on what this process parsed before
// (a text that ended inside a comment, inside a string or with a syntax error in mid-expression)
extern "C" void harness_separators_and_history()  /* vf: bounds=a_op1_b_op2_c_over_8x8_operator_tokens(thorough:15x15,one_per_precedence_level_and_alias)_x_6_token_separators(blank,tab,newline,CRLF,block_comment,line_comment)_x_5_histories(fresh_process,earlier_text_ending_in_an_open_comment,in_a_syntax_error,in_an_unknown_character,earlier_query_text) */
{
#ifdef VF_TIER_THOROUGH
    static const int REP[] = {0, 3, 5, 7, 9, 13, 15, 16, 17, 18, 19, 20, 21, 22, 23};
#else
    static const int REP[] = {0, 4, 9, 13, 18, 19, 21, 23, 0, 4, 9, 13, 18, 19, 21};   // quick: 8 tokens (*, -, <, ==, &&, and, or, imply)
#endif
    static const char* SEP[] = {" ", "\t", "\n", "\r\n", " /* offset * / + d */ ", " // + d\n"};
    int hist = vf_pick("!history", 5), sp = vf_pick("!separator", 6);
#ifdef VF_TIER_THOROUGH
    const int NREP = 15;
#else
    const int NREP = 8;
#endif
    const BinOp &o1 = BINOPS[REP[vf_pick("op1", NREP)]], &o2 = BINOPS[REP[vf_pick("op2", NREP)]];
    // what the process has parsed before, with a builder and document of its own
    if (hist != 0) {
        Ctx h;
        try {
            h.declare(DECLS);
            if (hist == 1) (void)h.expr("a + /* b");
            else if (hist == 2) (void)h.expr("a + (b * ");
            else if (hist == 3) (void)h.expr("a + @ \"b");
            else { TigaPropertyBuilder qb(h.doc); parseProperty("A[] a < /* 1", &qb, ""); }
        } catch (std::exception&) {}
    }
    Ctx cx;
    vf_assert(cx.declare(DECLS) == 0, "declarations-accepted");
    std::string s = SEP[sp];
    expect(cx, "a" + s + o1.tok + s + "b" + s + o2.tok + s + "c", two(o1, o2, id("a"), id("b"), id("c")), "nesting-independent-of-separators-and-history");
    vf_reach("end");
}

// identifiers at the lexer's length limit (4000 characters): the name in the tree is the name that was written, or the text is rejected
extern "C" void harness_long_identifiers()  /* vf: bounds=declared_name_of_3999..4001_characters_and_used_name_of_3999..4002_characters(same_letters,so_one_is_a_prefix_of_the_other);used_as_operand_of_a_binary_operator reach=end */
{
    int dl = vf_range("!declared_length", 3999, 4001), ul = vf_range("!used_length", 3999, 4002);
    Ctx cx;
    std::string d(dl, 'a'), u(ul, 'a');
    size_t e0 = cx.declare(("int " + d + " = 1; int b;").c_str());
    size_t n0 = cx.nerr();
    expression_t e = cx.expr((u + " + b").c_str());
    bool rejected = cx.nerr() != n0 || e.empty();
    vf_notei("declaration_errors", (long)e0); vf_notei("rejected", rejected);
    if (!rejected) {
        vf_assert(e.get_kind() == PLUS && e.get_size() == 2 && e.get(0).get_kind() == IDENTIFIER, "tree-shape");
        if (e.get_kind() == PLUS && e.get(0).get_kind() == IDENTIFIER) vf_assert(e.get(0).get_symbol().get_name() == u, "identifier-in-the-tree-is-the-one-written");
    }
    if (dl <= 4000 && ul == dl && e0 == 0) vf_assert(!rejected, "identifier-within-the-limit-accepted");
    vf_reach("end");
}

// ---- literals
extern "C" void harness_int_literals()  /* vf: bounds=decimal_literals_prefix+2_symbolic_digits_around_2^31_and_2^32,9..13_digits,with_and_without_leading_zeros;exact_value_or_diagnostic;-2147483648_is_INT_MIN */
{
    static const char* PREFIX[] = {"21474836", "0021474836", "42949672", "99999999", "214748364", "2147483", "000000000", "429496729", "1000000000", "21474836480"};
    Ctx cx;
    vf_assert(cx.declare(DECLS) == 0, "declarations-accepted");
    int p = vf_pick("prefix", 10), d1 = vf_pick("!d1", 10), d2 = vf_pick("!d2", 10), neg = vf_pick("!negated", 2);   // digits become text: eager
    std::string lit = std::string(PREFIX[p]) + (char)('0' + d1) + (char)('0' + d2);
    // mathematical value, independently
    unsigned long long val = 0; for (char ch : lit) val = val * 10 + (unsigned)(ch - '0');
    size_t n0 = cx.nerr();
    expression_t e = cx.expr(((neg ? "-" : "") + lit).c_str());
    bool rejected = cx.nerr() != n0 || e.empty();
    vf_note(lit.c_str()); vf_notei("rejected", rejected);
    if (val <= 2147483647ULL) {
        vf_assert(!rejected, "representable-literal-accepted");
        T want = neg ? node(UNARY_MINUS, {num((int)val)}) : num((int)val);
        vf_assert(same(e, want), "literal-value-exact");
    } else if (val == 2147483648ULL && neg) {
        vf_assert(!rejected && same(e, num(INT_MIN)), "int-min-literal-exact");
    } else {
        vf_assert(rejected, "out-of-range-literal-rejected-not-changed");
    }
    vf_reach("end");
}

extern "C" void harness_float_literals()  /* vf: bounds=floating_constant_bits_preserved_for_every_64-bit_pattern(symbolic)_through_expr_double/get_double_value;18_literal_spellings_converted_as_strtod_does */
{
    Ctx cx;
    vf_assert(cx.declare(DECLS) == 0, "declarations-accepted");
    // (1) any bit pattern survives the builder and the tree: the solver decides equality of the 64-bit patterns
    double v = vf_double("bits");
    cx.b.expr_double(v);
    expression_t e = cx.b.getExpressions()[0];
    cx.b.getExpressions().pop();
    double w = e.get_double_value();
    uint64_t a, b; memcpy(&a, &v, 8); memcpy(&b, &w, 8);
    vf_assert(e.get_kind() == CONSTANT && e.get_type().is_double(), "double-constant-node");
    vf_assert(a == b, "double-constant-bit-identical");
    // (2) spellings
    static const char* LITS[] = {"0.1", "1e308", "1.7976931348623157e308", "4.9e-324", "2.2250738585072014e-308", "1e-7", "123456789.25", "2.5E+3", "2.5e-3", "0.0", "1.0", "3.141592653589793",
                                 "0.30000000000000004", "9007199254740993.0", "1e22", "1e23", "5e-324", "17.5e0"};
    int k = vf_pick("literal", 18);
    size_t n0 = cx.nerr();
    expression_t f = cx.expr(LITS[k]);
    vf_assert(cx.nerr() == n0 && !f.empty() && f.get_kind() == CONSTANT && f.get_type().is_double(), "floating-literal-accepted");
    double want = strtod(LITS[k], nullptr), got = f.get_double_value();
    memcpy(&a, &want, 8); memcpy(&b, &got, 8);
    vf_assert(a == b, "floating-literal-nearest-double");
    vf_reach("end");
}
