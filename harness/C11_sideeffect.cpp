// C11: expressions that must be side-effect free are rejected if they can write state.
// Real code: lexer, grammar, Statement/DocumentBuilder, TypeChecker::visitFunction (changes/depends sets), CollectChangesVisitor / ExpressionVisitor
// over every statement form, expression_t::collect_possible_writes / get_symbols / changes_any_variable, and the context checks in
// visitEdge / visitLocation / visitVariable / visitInstance / checkType / checkExpression(FORALL..) / visitProperty.
// Symbolic: the context, the write form, for writers inside functions the statement form that carries the write, the call-chain depth.
// Oracle by construction: the model whose expression can write non-local state must be rejected; its twin, identical except that the write
// targets a local of the function (or is replaced by a constant), must be accepted.
#include "common.h"

static const char* GLOBALS = "int g; int g2; bool gb; int arr[3]; struct { int f; } rec; const int K = 2; chan c[4]; clock x;\n";

// direct write expressions on global state
static const char* DIRECT[] = {"g = 1", "g := 1", "g += 1", "g -= 1", "g *= 1", "g /= 1", "g %= 1", "g |= 1", "g &= 1", "g ^= 1", "g <<= 1", "g >>= 1",
                               "g++", "++g", "g--", "--g", "arr[1] = 1", "rec.f = 1", "arr[g]++", "rec.f -= 1"};
static const int NDIRECT = sizeof DIRECT / sizeof DIRECT[0];
// inner writes of a writer function: {on global state, same form on a local of the function}
static const char* INNER[][2] = {{"g = 1", "l = 1"}, {"arr[1] += 1", "la[1] += 1"}, {"(K > 5 ? l : g) = 1", "(K > 5 ? l : m) = 1"}, {"g++", "l++"}, {"rec.f = 1", "lr.f = 1"}, {"--g", "--l"}, {"(K > 5 ? g : l) = 1", "(K > 5 ? m : l) = 1"}, {"arr[l] = 1", "la[l] = 1"}};
#ifdef VF_TIER_THOROUGH
static const int NINNER = sizeof INNER / sizeof INNER[0];
#else
static const int NINNER = 3;
#endif
static const int NFORM = 17;
// body of `int w()` carrying write expression X in statement form `form`
static std::string body(int form, const std::string& X)
{
    std::string pre = " int l; int m; int la[3]; struct { int f; } lr; ";
    switch (form) {
    case 0: return pre + X + "; return 2;";
    case 1: return pre + "if (K > 0) " + X + "; return 2;";
    case 2: return pre + "if (K > 5) { l = 0; } else " + X + "; return 2;";
    case 3: return pre + "for (" + X + "; K > 5; l = 0) { } return 2;";
    case 4: return pre + "for (l = 0; (" + X + ") > 5; l = 0) { } return 2;";
    case 5: return pre + "for (l = 0; K > 5; " + X + ") { } return 2;";
    case 6: return pre + "for (l = 0; K > 5; l = 0) " + X + "; return 2;";
    case 7: return pre + "while ((" + X + ") > 5) { } return 2;";
    case 8: return pre + "while (K > 5) " + X + "; return 2;";
    case 9: return pre + "do " + X + "; while (K > 5); return 2;";
    case 10: return pre + "for (k : int[0,1]) " + X + "; return 2;";
    case 11: return pre + "{ { " + X + "; } } return 2;";
    case 12: return pre + "int l2 = (" + X + "); return 2;";
    case 13: return pre + "return (" + X + ");";
    case 14: return pre + "do { } while ((" + X + ") > 5); return 2;";
    case 15: return pre + "if ((" + X + ") > 5) { } return 2;";
    case 16: return pre + "for (k : int[0,1]) { if (k > 0) { " + X + "; } } return 2;";
    }
    return "";
}

enum { CX_GUARD, CX_INV, CX_SYNC, CX_SELECT, CX_INIT, CX_ARRSIZE, CX_RANGE, CX_ARG, CX_QUANT, CX_ASSERT, CX_PROB, CX_LOCALINIT, CX_QUERY, CX_SUM, CX_REFARG, CX_UPD_FORALL, CX_UPD_EXISTS, CX_UPD_SUM, CX_FUN_FORALL, CX_FUN_SUM, NCX };
static const char* CXNAME[] = {"guard", "invariant", "sync", "select", "initialiser", "array-size", "range-bound", "instantiation-arg", "quantified-body", "assert", "probability", "template-local-initialiser", "query", "sum-body", "reference-instantiation-arg", "forall-body-in-update", "exists-body-in-update", "sum-body-in-update", "forall-body-in-function", "sum-body-in-function"};

// whole model with int-valued expression E placed in context cx; `funcs` are the declarations E needs
static std::string model(int cx, const std::string& funcs, const std::string& E)
{
    std::string s = GLOBALS; s += funcs;
    if (cx == CX_INIT) s += "int v4 = " + E + ";\n";
    if (cx == CX_ARRSIZE) s += "int a5[" + E + "];\n";
    if (cx == CX_RANGE) s += "int[0, " + E + "] v6;\n";
    if (cx == CX_ASSERT) s += "void h() { assert((" + E + ") > 0); }\n";
    // quantifier bodies stay side-effect free even where the enclosing construct may write (a function body, an update)
    if (cx == CX_FUN_FORALL) s += "bool h2() { return forall (k : int[0,1]) (" + E + ") > 0; }\n";
    if (cx == CX_FUN_SUM) s += "int h3() { int l3; l3 = sum (k : int[0,1]) (" + E + "); return l3; }\n";
    s += "process Q(int p) { state S0; init S0; }\nprocess QR(int &rp) { state S0; init S0; }\n";
    s += "process P() {\n";
    if (cx == CX_LOCALINIT) s += " int v11 = " + E + ";\n";
    s += " state A";
    if (cx == CX_INV) s += " { (" + E + ") > 0 }";
    s += ", B;\n branchpoint BP;\n init A;\n trans A -> B {";
    if (cx == CX_SELECT) s += " select k : int[0, " + E + "];";
    if (cx == CX_GUARD) s += " guard (" + E + ") > 0;";
    if (cx == CX_QUANT) s += " guard forall (k : int[0,1]) (" + E + ") > 0;";
    if (cx == CX_SUM) s += " guard (sum (k : int[0,1]) (" + E + ")) > 0;";
    if (cx == CX_SYNC) s += " sync c[" + E + "]!;";
    if (cx == CX_UPD_FORALL) s += " assign gb = forall (k : int[0,1]) (" + E + ") > 0;";
    if (cx == CX_UPD_EXISTS) s += " assign gb = exists (k : int[0,1]) (" + E + ") > 0;";
    if (cx == CX_UPD_SUM) s += " assign g2 = 1 + sum (k : int[0,1]) (" + E + ");";
    s += " }, A -> BP { }, BP -> B {";
    if (cx == CX_PROB) s += " probability " + E + ";";
    s += " };\n}\n";
    if (cx == CX_ARG) s += "Q1 = Q(" + E + ");\nsystem P, Q1;\n";
    else if (cx == CX_REFARG) s += "QR1 = QR(" + E + ");\nsystem P, QR1;\n";   // an argument for a non-const reference parameter: an l-value, still no side effects
    else s += "system P;\n";
    return s;
}

static bool accepted(int cx, const std::string& funcs, const std::string& E)
{
    Model m;
    if (cx == CX_QUERY) {
        bool ok = m.load(model(-1, funcs, ""));
        if (!ok) return false;   // the declarations themselves are rejected (e.g. a local initialiser calling a writer)
        return m.query("A[] (" + E + ") > 0");
    }
    return m.load(model(cx, funcs, E));
}

static void verdicts(int cx, const std::string& wf, const std::string& we, const std::string& tf, const std::string& te)
{
    bool w = accepted(cx, wf, we), t = accepted(cx, tf, te);
    vf_note(CXNAME[cx]); vf_note(wf.c_str()); vf_note(we.c_str()); vf_notei("writer_accepted", w); vf_notei("twin_accepted", t);
    vf_assert(!w, "writer-rejected");
    vf_assert(t, "twin-accepted");
    vf_reach("end");
}

extern "C" void harness_direct()  /* vf: bounds=20_direct_write_expressions(=,:=,10_compound,pre/post_inc/dec,array_element,struct_field)_x_20_contexts */
{
    int cx = vf_pick("!context", NCX), w = vf_pick("!write", NDIRECT);
    verdicts(cx, "", DIRECT[w], "", cx == CX_REFARG ? "g" : "K");
}

extern "C" void harness_function_writer()  /* vf: bounds=writer_function:17_statement_forms_x_3_inner_writes(quick)/8(thorough)_x_19_contexts;twin_writes_a_local */
{
    int cx = vf_pick("!context", NCX), form = vf_pick("!form", NFORM), in = vf_pick("!inner", NINNER);
    vf_assume(cx != CX_REFARG);   // a call is not an l-value
    // a local initialiser must itself be side-effect free (even for writes to locals), so for that form the twin reads instead of writing
    std::string twin = form == 12 ? "l + 1" : INNER[in][1];
    verdicts(cx, "int w() {" + body(form, INNER[in][0]) + " }\n", "w()", "int w() {" + body(form, twin) + " }\n", "w()");
}

extern "C" void harness_call_chain()  /* vf: bounds=call_chain_depth_1..3_above_a_writer;chain_link_in_3_positions(statement,return_value,argument);write_through_reference_parameter_depth_0..2;19_contexts */
{
    int cx = vf_pick("!context", NCX), depth = vf_range("!depth", 1, 3), link = vf_pick("!link", 3), viaref = vf_pick("!viaref", 2);
    vf_assume(cx != CX_REFARG);
    std::string wf, tf;
    if (viaref) {
        // the write happens through a non-constant reference parameter; the chain passes the reference on
        wf = "int w0(int& r) { r = 1; return 2; }\n"; tf = "int w0(const int& r) { int l; l = r; return 2; }\n";
        for (int d = 1; d <= depth; d++) {
            std::string f = "int w" + std::to_string(d) + "(int& r) { ", t = "int w" + std::to_string(d) + "(const int& r) { ";
            std::string call = "w" + std::to_string(d - 1) + "(r)";
            std::string b = link == 0 ? call + "; return 2; }\n" : link == 1 ? "return " + call + "; }\n" : "int l = " + call + "; return l; }\n";
            wf += f + b; tf += t + b;
        }
        std::string e = "w" + std::to_string(depth) + "(g)";
        verdicts(cx, wf, e, tf, "w" + std::to_string(depth) + "(K)");
        return;
    }
    wf = "int w0() { g = 1; return 2; }\nint id(int a) { return a; }\n"; tf = "int w0() { int l; l = 1; return 2; }\nint id(int a) { return a; }\n";
    for (int d = 1; d <= depth; d++) {
        std::string f = "int w" + std::to_string(d) + "() { ";
        std::string call = "w" + std::to_string(d - 1) + "()";
        std::string b = link == 0 ? call + "; return 2; }\n" : link == 1 ? "return " + call + "; }\n" : "return id(" + call + "); }\n";
        wf += f + b; tf += f + b;
    }
    std::string e = "w" + std::to_string(depth) + "()";
    verdicts(cx, wf, e, tf, e);
}

// a write through a non-constant reference parameter, wherever that parameter stands in the list and whatever the other arguments are
extern "C" void harness_reference_position()  /* vf: bounds=writer_with_1..3_parameters,the_reference_parameter_in_any_position,other_arguments(literal,constant,arithmetic,inline-if)_x_target(global,array_element,struct_field)_x_19_contexts;twin_takes_the_reference_const reach=end */
{
    int cx = vf_pick("!context", NCX), n = vf_range("!parameters", 1, 3), rp = vf_pick("!reference_position", 3), other = vf_pick("!other_arguments", 4), tgt = vf_pick("!target", 3);
    vf_assume(rp < n && cx != CX_REFARG);
    static const char* OTHER[] = {"1", "K", "K + 1", "(K > 1 ? 2 : 3)"};
    static const char* TGT[] = {"g", "arr[1]", "rec.f"};
    std::string params, cparams, args, cargs;   // the twin gets a constant where the writer gets its target: some contexts demand compile-time values
    for (int i = 0; i < n; i++) {
        std::string pn = "p" + std::to_string(i);
        params += (i ? ", " : "") + (i == rp ? "int& " + pn : "int " + pn);
        cparams += (i ? ", " : "") + (i == rp ? "const int& " + pn : "int " + pn);
        args += (i ? ", " : "") + std::string(i == rp ? TGT[tgt] : OTHER[other]);
        cargs += (i ? ", " : "") + std::string(i == rp ? "K" : OTHER[other]);
    }
    std::string body = " p" + std::to_string(rp) + " = 1; return 2; }\n", cbody = " int l; l = p" + std::to_string(rp) + "; return 2; }\n";
    verdicts(cx, "int wr(" + params + ") {" + body, "wr(" + args + ")", "int wr(" + cparams + ") {" + cbody, "wr(" + cargs + ")");
}
