// C20: the XML writer's template graph mirrors the document it was given.
// Real code: XMLWriter::project / declaration / taTempl / location / name / writeStateAttributes / init / transition / source / target / labels / label /
// selfLoop / nail / system_instantiation, ConvertInput, declarations_t::str and the expression printer (over the libxml2 writer model; native replay uses
// the real writer and re-reads the file with libxml2's tree parser).
// Symbolic: edge endpoints (self loops, parallel edges, branchpoint ends), controllable attribute, label presence and shape (one or two select binders,
// trivially true guard), location names from a pool (Err, lpmin, names of XML entities), flags, invariant and rate labels.
// Oracle: the abstract model the document was built from (C04's generator), read back from the writer's element tree.
#include "xmlmodel.h"

static const char* GDECL = "int g; int h; clock x; clock y; chan c; broadcast chan bc; const int K = 2;";
static void mismatch(const std::string& what, const std::string& got, const std::string& want) { vf_note(("MISMATCH " + what + ": got '" + got + "' want '" + want + "'").c_str()); }
static bool eq(const std::string& what, const std::string& got, const std::string& want) { if (got != want) { mismatch(what, got, want); return false; } return true; }
static std::string trim(std::string s) { while (!s.empty() && isspace((unsigned char)s.back())) s.pop_back(); size_t i = 0; while (i < s.size() && isspace((unsigned char)s[i])) i++; return s.substr(i); }
static std::string label_of(const WEl& e, const char* kind, int* count = nullptr)
{
    std::string r = "<none>"; int n = 0;
    for (auto* l : e.children("label")) { auto* k = l->attr("kind"); if (k && *k == kind) { r = trim(l->text); n++; } }
    if (count) *count = n;
    return r;
}

struct Counts { int graph = 0, ctrl = 0, select = 0, prob = 0, labels = 0; };
static Counts compare(const WEl& root, const MModel& m)
{
    Counts bad;
    bad.graph += !eq("root", root.name, "nta");
    auto ts = root.children("template");
    bad.graph += !eq("#templates", std::to_string(ts.size()), std::to_string(m.templs.size()));
    for (size_t ti = 0; ti < ts.size() && ti < m.templs.size(); ti++) {
        const WEl& t = *ts[ti]; const MTemplate& mt = m.templs[ti];
        std::string tn = mt.name + ".";
        auto names = t.children("name");
        bad.graph += !eq(tn + "name", names.empty() ? "<none>" : trim(names[0]->text), mt.name);
        auto locs = t.children("location");
        bad.graph += !eq(tn + "#locations", std::to_string(locs.size()), std::to_string(mt.locs.size()));
        std::vector<std::string> ids;
        for (size_t i = 0; i < locs.size() && i < mt.locs.size(); i++) {
            const WEl& l = *locs[i]; const MLoc& ml = mt.locs[i];
            std::string ln = tn + "loc" + std::to_string(i) + ".";
            auto* id = l.attr("id");
            bad.graph += !eq(ln + "has-id", id ? "1" : "0", "1");
            std::string ids_ = id ? *id : "";
            for (auto& o : ids) bad.graph += !eq(ln + "id-unique", o == ids_ ? "dup" : "ok", "ok");
            ids.push_back(ids_);
            auto nm = l.children("name");
            bad.graph += !eq(ln + "name", nm.empty() ? "<none>" : trim(nm[0]->text), loc_name(ml));
            bad.labels += !eq(ln + "invariant", label_of(l, "invariant"), ml.inv.empty() ? "<none>" : ml.inv);
            bad.labels += !eq(ln + "rate", label_of(l, "exponentialrate"), ml.rate.empty() ? "<none>" : ml.rate);
            bad.graph += !eq(ln + "urgent", l.children("urgent").empty() ? "0" : "1", ml.urgent ? "1" : "0");
            bad.graph += !eq(ln + "committed", l.children("committed").empty() ? "0" : "1", ml.committed ? "1" : "0");
        }
        auto bps = t.children("branchpoint");
        bad.graph += !eq(tn + "#branchpoints", std::to_string(bps.size()), std::to_string(mt.bps.size()));
        std::vector<std::string> bpids;
        for (size_t i = 0; i < bps.size(); i++) {
            auto* id = bps[i]->attr("id");
            std::string bn = tn + "bp" + std::to_string(i) + ".";
            bad.graph += !eq(bn + "has-id", id ? "1" : "0", "1");
            std::string ids_ = id ? *id : "";
            for (auto& o : ids) bad.graph += !eq(bn + "id-unique", o == ids_ ? "dup" : "ok", "ok");
            for (auto& o : bpids) bad.graph += !eq(bn + "id-unique", o == ids_ ? "dup" : "ok", "ok");
            bpids.push_back(ids_);
        }
        auto inits = t.children("init");
        bad.graph += !eq(tn + "#init", std::to_string(inits.size()), "1");
        if (inits.size() == 1 && (size_t)mt.init < ids.size()) { auto* r = inits[0]->attr("ref"); bad.graph += !eq(tn + "init.ref", r ? *r : "<none>", ids[mt.init]); }
        auto trs = t.children("transition");
        bad.graph += !eq(tn + "#transitions", std::to_string(trs.size()), std::to_string(mt.edges.size()));
        for (size_t i = 0; i < trs.size() && i < mt.edges.size(); i++) {
            const WEl& e = *trs[i]; const MEdge& me = mt.edges[i];
            std::string en = tn + "edge" + std::to_string(i) + ".";
            auto src = e.children("source"), dst = e.children("target");
            bad.graph += !eq(en + "#source", std::to_string(src.size()), "1");
            bad.graph += !eq(en + "#target", std::to_string(dst.size()), "1");
            if (!me.src_bp && src.size() == 1 && (size_t)me.src < ids.size()) { auto* r = src[0]->attr("ref"); bad.graph += !eq(en + "source.ref", r ? *r : "<none>", ids[me.src]); }
            if (!me.dst_bp && dst.size() == 1 && (size_t)me.dst < ids.size()) { auto* r = dst[0]->attr("ref"); bad.graph += !eq(en + "target.ref", r ? *r : "<none>", ids[me.dst]); }
            if (me.src_bp && src.size() == 1 && (size_t)me.src < bpids.size()) { auto* r = src[0]->attr("ref"); bad.graph += !eq(en + "source.ref(bp)", r ? *r : "<none>", bpids[me.src]); }
            if (me.dst_bp && dst.size() == 1 && (size_t)me.dst < bpids.size()) { auto* r = dst[0]->attr("ref"); bad.graph += !eq(en + "target.ref(bp)", r ? *r : "<none>", bpids[me.dst]); }
            auto* c = e.attr("controllable");
            bool ctrl = !c || *c == "true";
            bad.ctrl += !eq(en + "controllable", ctrl ? "1" : "0", edge_control(me) ? "1" : "0");
            bad.select += !eq(en + "select", label_of(e, "select"), me.select.empty() ? "<none>" : me.select);
            bool trivial_guard = me.guard.empty() || me.guard == "true" || me.guard == "1";
            std::string gl = label_of(e, "guard");
            if (trivial_guard) bad.labels += !(gl == "<none>" || gl == me.guard || gl == "1");   // a trivially true guard may be omitted or written as it is
            else bad.labels += !eq(en + "guard", gl, me.guard);
            bad.labels += !eq(en + "synchronisation", label_of(e, "synchronisation"), me.sync.empty() ? "<none>" : me.sync);
            bad.labels += !eq(en + "assignment", label_of(e, "assignment"), me.assign.empty() ? "<none>" : me.assign);
            bad.prob += !eq(en + "probability", label_of(e, "probability"), me.prob.empty() ? "<none>" : me.prob);
        }
    }
    return bad;
}

static void run(const MModel& m)
{
    XmlDoc d = render_xml(m);
    Document doc;
    bool threw = false;
    try { parse_xml(d, &doc); } catch (std::exception& e) { threw = true; vf_note(e.what()); }
    if (doc.has_errors()) note_errors(doc);
    vf_assert(!threw && !doc.has_errors(), "model-accepted");
    if (threw || doc.has_errors()) return;
    assert_invariants(doc, true);
    vf_reach("accepted");
    WEl root; std::string problem;
    bool ok = false, wthrew = false;
    try { ok = write_xml(doc, root, problem); } catch (std::exception& e) { wthrew = true; vf_note(e.what()); }
    vf_assert(!wthrew, "writing-does-not-throw");
    if (wthrew) return;
    if (!ok) vf_note(problem.c_str());
    vf_assert(ok, "output-is-one-well-formed-document");
    if (!ok) return;
    Counts bad = compare(root, m);
    vf_assert(bad.graph == 0, "locations-init-and-transition-endpoints-mirror-document");
    vf_assert(bad.labels == 0, "invariant-rate-guard-sync-assignment-labels-carry-the-text");
    vf_assert(bad.ctrl == 0, "controllable-attribute-reflects-edge");
    vf_assert(bad.select == 0, "select-label-carries-all-binders");
    vf_assert(bad.prob == 0, "probability-label-carries-the-weight");
}
static MTemplate base_template(const std::string& name, int k, const char* n0 = "A", const char* n1 = "B", const char* n2 = "C")
{
    MTemplate t; t.name = name;
    t.locs = {MLoc{"id" + std::to_string(10 * k), n0}, MLoc{"id" + std::to_string(10 * k + 1), n1}, MLoc{"id" + std::to_string(10 * k + 2), n2}};
    t.init = 0;
    return t;
}

extern "C" void harness_graph()  /* vf: bounds=2_templates;3_locations;2_edges_with_any_location_endpoints(self_loops,parallel_edges);controllable_absent/true/false;initial_location_index;urgent/committed_endpoints;location_names_from_a_pool(Err,lpmin,lt,amp,quot,names_of_15..32_characters) reach=end */
{
    // names of every length class: short (held inside the string object), at and beyond the 15/16 character boundary (held on the heap)
    static const char* NAMES[][3] = {{"A", "B", "C"}, {"Err", "lpmin", "lt"}, {"amp", "quot", "gt"}, {"Fifteen_chars_15", "WaitingForAcknowledgement", "a_name_of_exactly_thirty_two_chr"}};
    MModel m; m.gdecl = GDECL; m.system = "system T, U;";
    int np = vf_pick("!names", 4);
    MTemplate t = base_template("T", 0, NAMES[np][0], NAMES[np][1], NAMES[np][2]), u = base_template("U", 1);
    for (int e = 0; e < 2; e++) {
        MEdge me; std::string n = std::to_string(e);
        me.src = vf_pick(("!src" + n).c_str(), 3); me.dst = vf_pick(("!dst" + n).c_str(), 3);
        me.ctrl = e == 0 ? vf_pick("!controllable0", 3) : 0;
        me.guard = "g < " + std::to_string(10 + e);
        me.assign = "h = " + std::to_string(20 + e);
        t.edges.push_back(me);
    }
    t.init = vf_pick("!init", 3);
    { int f0 = vf_pick("!flag0", 3), f2 = vf_pick("!flag2", 3); t.locs[0].urgent = f0 == 1; t.locs[0].committed = f0 == 2; t.locs[2].urgent = f2 == 1; t.locs[2].committed = f2 == 2; }   // urgent / committed locations as edge endpoints
#ifndef VF_TIER_THOROUGH
    vf_assume((np == 0 && t.init == 0 && t.edges[0].ctrl == 0) || (!t.locs[0].urgent && !t.locs[0].committed && !t.locs[2].urgent && !t.locs[2].committed));
#endif
    MEdge f; f.src = 1; f.dst = 2; f.sync = "bc!"; u.edges = {f}; u.init = 2;
    m.templs = {t, u};
    run(m);
    vf_reach("end");
}

// any number of self loops on one location (the writer lays them out four to a quadrant), each with labels of its own, next to ordinary edges
extern "C" void harness_self_loops()  /* vf: bounds=1..7_self_loops_on_one_location(named_A_/_lpmin_/_Err),each_with_guard_and_update,optional_synchronisation_on_the_last;one_ordinary_edge_before_or_after reach=end */
{
    MModel m; m.gdecl = GDECL; m.system = "system T;";
    static const char* LN[] = {"B", "lpmin", "Err"};
    int n = vf_range("!self_loops", 1, 7), ln = vf_pick("!loop_location_name", 3), where = vf_pick("!ordinary_edge_first", 2), on = vf_pick("!loops_on", 2);
    MTemplate t = base_template("T", 0, "A", LN[ln], "C");
    MEdge o; o.src = 0; o.dst = 2; o.guard = "g < 9"; o.assign = "h = 9";
    if (where) t.edges.push_back(o);
    for (int e = 0; e < n; e++) {
        MEdge me; me.src = me.dst = on ? 1 : 0;
        me.guard = "g < " + std::to_string(10 + e); me.assign = "h = " + std::to_string(20 + e);
        if (e == n - 1) me.sync = "bc!";
        t.edges.push_back(me);
    }
    if (!where) t.edges.push_back(o);
    m.templs = {t};
    run(m);
    vf_reach("end");
}

extern "C" void harness_labels()  /* vf: bounds=label_presence_on_2_edges(select_with_1_or_2_binders,guard_incl._trivially_true,constant_false_and_with_<_&&,synchronisation,assignment,probability);location_invariant/rate/urgent/committed reach=end */
{
    MModel m; m.gdecl = GDECL; m.system = "system T;";
    MTemplate t = base_template("T", 0);
    int sel = vf_pick("!select", 3), gd = vf_pick("!guard", 7), l0 = vf_pick("!labels_edge0", 8), l1 = vf_pick("!labels_edge1", 4), loc = vf_pick("!location_labels", 4), fl = vf_pick("!flag", 3);
#ifndef VF_TIER_THOROUGH
    vf_assume(gd < 4 || (l1 == 0 && loc == 0 && fl == 0));   // quick tier: the constant guards with the first edge's other labels only
#endif
    MEdge e0; e0.src = 0; e0.dst = 1;
    if (sel == 1) e0.select = "k : int[0,2]"; else if (sel == 2) e0.select = "k : int[0,2], j : int[0,1]";
    static const char* GUARDS[] = {"", "true", "g < 10 && x >= 2", "g < 1 && h < 2 && x <= 3", "false", "0", "K > 5"};   // incl. guards that are constant but not true: an edge switched off
    e0.guard = GUARDS[gd];
    if (l0 & 1) e0.sync = "c!";
    if (l0 & 2) e0.assign = "h = 20, x = 0";
    if (l0 & 4) e0.prob = "3";
    MEdge e1; e1.src = 1; e1.dst = 1;
    if (l1 & 1) e1.guard = "g < 11";
    if (l1 & 2) e1.assign = "h = 21";
    t.edges = {e0, e1};
    if (loc & 1) t.locs[0].inv = "x <= 5";
    if (loc & 2) t.locs[0].rate = "3";
    t.locs[2].urgent = fl == 1; t.locs[2].committed = fl == 2;
    m.templs = {t};
    run(m);
    vf_reach("end");
}

extern "C" void harness_branchpoints()  /* vf: bounds=1..2_branchpoints;3_edges:one_into_a_branchpoint_from_a_symbolic_location,two_out_of_a_symbolic_branchpoint_to_symbolic_locations(with_probability_weights),optional_location_to_location_edge,symbolic_edge_order reach=end */
{
    MModel m; m.gdecl = GDECL; m.system = "system T;";
    MTemplate t = base_template("T", 0);
    int nbp = 1 + vf_pick("!branchpoints", 2);
    t.bps = {"id5"}; if (nbp == 2) t.bps.push_back("id6");
    int into = vf_pick("!entered", nbp), from = vf_pick("!left", nbp);
    MEdge a; a.src = vf_pick("!a_src", 3); a.dst_bp = true; a.dst = into; a.sync = "bc!";
    MEdge b; b.src_bp = true; b.src = from; b.dst = vf_pick("!b_dst", 3); b.prob = "2";
    MEdge c; c.src_bp = true; c.src = from; c.dst = vf_pick("!c_dst", 3); c.prob = "3"; c.assign = "h = 21";
    MEdge d; d.src = 2; d.dst = 2; d.guard = "g < 11";
    switch (vf_pick("!order", 4)) {
    case 0: t.edges = {a, b, c}; break;
    case 1: t.edges = {b, a, c}; break;
    case 2: t.edges = {c, d, b, a}; break;
    default: t.edges = {a, d, b}; break;
    }
    m.templs = {t};
    run(m);
    vf_reach("end");
}
