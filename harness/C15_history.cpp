// C15: a parse result depends only on its input, not on earlier parses in the process.
// Real code: parse_XTA / parseProperty / parse_XML_buffer entry code, setStartToken, the flex buffer and start-condition globals, the grammar's
// file-static state (types counter, rootTransId), UTAP::tracker (global position counter), position_index_t::add / find, Document::add_error.
// Symbolic: the observed call B (6 kinds of entry point / input), the intervening call A (10 kinds: successful, with diagnostics, aborted inside the
// grammar by a foreign exception, ending inside a comment, ending inside nested array dimensions, property mode, old syntax, ...), and the value of
// the global position counter before the second B (around 2^31 and 2^32; a symbolic 32-bit value decided by the solver).
// Oracle: record(B after A) == record(B first in the process).
#include "xmlmodel.h"
#include "libparser.h"

static std::string record_doc(Document& doc, bool threw, int rc)
{
    return std::string(threw ? "EXC " : "RET ") + std::to_string(rc) + "\n" + dump_diagnostics(doc, true) + dump_document(doc) + dump_methods(doc) + "\n";
}
static MModel small_model(bool faulty)
{
    MModel m; m.gdecl = "int g; clock x; chan c; int x2[3], y2;";
    MTemplate t; t.name = "T"; t.locs = {MLoc{"id0", "A", "x <= 5"}, MLoc{"id1", "B"}}; t.init = 0;
    MEdge e; e.src = 0; e.dst = 1; e.guard = faulty ? "g <\n  nope && x >= 1" : "g < 3 && x >= 1"; e.sync = "c!"; e.assign = "g = g + 1"; t.edges = {e};
    m.templs = {t}; m.system = "system T;";
    return m;
}
struct ThrowingBuilder : DocumentBuilder {
    using DocumentBuilder::DocumentBuilder;
    void expr_identifier(const char* n) override { if (!strcmp(n, "boom")) throw std::runtime_error("foreign exception from a callback"); DocumentBuilder::expr_identifier(n); }
};

// the observed call
static std::string call_B(int kind)
{
    Document doc; bool threw = false; int rc = 0;
    try {
        switch (kind) {
        case 0: { MModel m = small_model(true); XmlDoc d = render_xml(m); rc = parse_xml(d, &doc); break; }                 // XML, with a diagnostic on line 2 of a label
        case 1: { MModel m = small_model(false); std::string s = render_xta(m); rc = parse_XTA(s.c_str(), &doc, true); break; }   // whole XTA, accepted
        case 2: { DocumentBuilder b(doc); rc = parse_XTA("int a[3], b;\nint c[int[0,1]];\nbool d = zz;", &b, true, S_DECLARATION, "/nta/declaration"); break; }   // block parse (array declarators first)
        case 3: { MModel m = small_model(false); std::string s = render_xta(m); parse_XTA(s.c_str(), &doc, true); TigaPropertyBuilder pb(doc); rc = parseProperty("A[] g < 3 &&\n  nope > 1", &pb, "/q"); break; }
        case 4: rc = parse_XTA("clock x; int i;\nprocess P { state A, B; init A; trans A -> B { guard x < 3, i < nope; }; }\nsystem P;", &doc, false); break;    // old syntax
        case 5: { DocumentBuilder b(doc); rc = parse_XTA("1 +\n (2 * )", &b, true, S_EXPRESSION, "/e"); break; }
        case 6: rc = parse_XTA("int i;\nprocess P() { state A, B, C; init A; trans -> C { guard i < 3; }, A -> B { }; }\nsystem P;", &doc, true); break;   // a trans list that starts with the shorthand form (no previous edge to take the source from)
        case 7: rc = parse_XTA("const int k1 = 7; int big = 12345; double dd = 2.5;\nprocess P() { state A; init A; }\nsystem P;", &doc, true); break;              // plain literals
        // query parses with nothing else before them in the call (a document without declarations): malformed on line 1, malformed on line 2, well-formed
        case 8: { TigaPropertyBuilder pb(doc); rc = parseProperty("A[] 1 < ", &pb, "/q"); break; }
        case 9: { TigaPropertyBuilder pb(doc); rc = parseProperty("E<> true\nA[] (1 + ", &pb, "/q"); break; }
        case 10: { TigaPropertyBuilder pb(doc); rc = parseProperty("A[] 1 < 2 /* ok */", &pb, "/q"); break; }
        // an old-syntax XML model whose first text block draws a diagnostic
        case 12: rc = parse_XTA("int8_t small = 1; const int m = INT16_MAX - UINT8_MAX; double area = M_PI;\nprocess P() { state A; init A; }\nsystem P;", &doc, true); break;   // uses the built-in declarations every new-syntax text starts with
        case 11: { MModel m = small_model(false); m.gdecl = "int g; clock x; chan c; int x2[3], y2; const k 2 +;"; XmlDoc d = render_xml(m); rc = parse_xml(d, &doc, false); break; }
        }
    } catch (std::exception& e) { threw = true; }
    return record_doc(doc, threw, rc);
}
// the intervening call; whatever it does (return, diagnostics, exception) must not influence later calls
static void call_A(int kind)
{
    Document doc;
    try {
        switch (kind) {
        case 0: { MModel m = small_model(false); XmlDoc d = render_xml(m); parse_xml(d, &doc); break; }
        case 1: { MModel m = small_model(true); XmlDoc d = render_xml(m); parse_xml(d, &doc); break; }
        case 2: parse_XTA("int i; /* never closed\nprocess P() { state A; init A; }\nsystem P;", &doc, true); break;                     // ends inside a comment
        case 3: { DocumentBuilder b(doc); parse_XTA("int a[int[0,1]][int[0,1]][", &b, true, S_DECLARATION, "/d"); break; }             // ends inside nested array dimensions
        case 4: { MModel m = small_model(false); std::string s = render_xta(m); parse_XTA(s.c_str(), &doc, true); TigaPropertyBuilder pb(doc); parseProperty("E<> g > 1\nA[] g < 5", &pb, "/q"); break; }
        case 5: parse_XTA("clock x; process P { state A; init A; } system P;", &doc, false); break;                                      // old syntax
        case 6: { ThrowingBuilder b(doc); parse_XTA("1 + boom * 2", &b, true, S_EXPRESSION, "/x"); break; }                              // foreign exception through the grammar
        case 7: { ThrowingBuilder b(doc); parse_XTA("int q = 1; process P() { state A, B; init A; trans A -> B { guard boom > 1; }; } system P;", &b, true); break; }   // ... from deep inside a process body
        case 8: { MModel m = small_model(false); std::string s = render_xta(m); parse_XTA(s.c_str(), &doc, true); TigaPropertyBuilder pb(doc); parseProperty("E<> g > /* open", &pb, "/q"); break; }   // property mode, unterminated comment
        case 9: { DocumentBuilder b(doc); parse_XTA("k : int[0,", &b, true, S_SELECT, "/s"); break; }                                     // truncated select
        case 10: { DocumentBuilder b(doc); parse_XTA("int big = 99999999999999999999; int other = 3;", &b, true, S_DECLARATION, "/d"); break; }   // a literal beyond 2^63
        case 11: { DocumentBuilder b(doc); parse_XTA("double huge = 1e999; double tiny = 1e-999;", &b, true, S_DECLARATION, "/d"); break; }        // floating literals outside the range of double
        case 12: parse_XTA("int i; process P() { state A, B, C; init A; trans B -> C { }, -> A { }; } system P;", &doc, true); break;         // a complete edge followed by the shorthand form
        case 13: { TigaPropertyBuilder pb(doc); parseProperty("E<> (1 + ", &pb, "/q"); break; }                                               // a malformed one-line query and nothing else
        case 14: { TigaPropertyBuilder pb(doc); parseProperty("E<> true\nE<> (2 * ", &pb, "/q"); break; }                                     // ... with the error on the second line
        case 15: { XmlDoc d; d.el("nta").el("extension").leaf("declaration", "int q;").end().end(); parse_xml(d, &doc); break; }               // XML: a known section inside an element the reader does not know (the reader gives up with an exception)
        case 16: { XmlDoc d; d.el("nta").leaf("declaration", "int q;").el("template").leaf("name", "T").empty("location", {}).end().end(); parse_xml(d, &doc); break; }   // XML: a location without id
        case 17: { XmlDoc d; d.el("nta").leaf("declaration", "int q;").el("template").leaf("name", "T"); parse_xml(d, &doc); break; }          // XML: the document ends inside a template
        }
    } catch (...) {}
}

extern "C" void harness_history()  /* vf: bounds=13_observed_calls_x_18_intervening_calls(one-step_histories) reach=end */
{
    int b = vf_pick("!observed", 13), a = vf_pick("!intervening", 18);
    std::string first = call_B(b);
    call_A(a);
    std::string again = call_B(b);
    if (first != again) { vf_note(first.c_str()); vf_note(again.c_str()); }
    vf_assert(first == again, "result-independent-of-earlier-parse");
    vf_reach("end");
}
extern "C" void harness_history2()  /* vf: tier=thorough bounds=13_observed_calls_x_18x18_two-step_histories reach=end */
{
    int b = vf_pick("!observed", 13), a1 = vf_pick("!intervening1", 18), a2 = vf_pick("!intervening2", 18);
    std::string first = call_B(b);
    call_A(a1); call_A(a2);
    std::string again = call_B(b);
    vf_assert(first == again, "result-independent-of-earlier-parses");
    vf_reach("end");
}

// the global position counter: line / column / path of a diagnostic do not depend on how much text the process has parsed before
struct DiagRec { std::string msg, path; long line, col, eline, ecol; };
struct Rec { bool threw; int rc; std::vector<DiagRec> diags; std::string dump; };
static Rec call_B_numeric(int kind)
{
    Rec r; Document doc; r.threw = false; r.rc = 0;
    try {
        switch (kind) {
        case 0: { DocumentBuilder b(doc); r.rc = parse_XTA("1 +\n (2 * )", &b, true, S_EXPRESSION, "/e"); break; }
        case 1: { DocumentBuilder b(doc); r.rc = parse_XTA("int a[3], b;\nint c[int[0,1]];\nbool d = zz;", &b, true, S_DECLARATION, "/nta/declaration"); break; }
        case 2: { MModel m = small_model(true); XmlDoc d = render_xml(m); r.rc = parse_xml(d, &doc); break; }
        }
    } catch (std::exception& e) { r.threw = true; }
    for (auto& e : doc.get_errors())
        r.diags.push_back(DiagRec{e.msg, e.start.path ? *e.start.path : std::string(), (long)e.start.line, (long)(uint32_t)(e.position.start - e.start.position), (long)e.end.line, (long)(uint32_t)(e.position.end - e.end.position)});
    r.dump = dump_document(doc);
    return r;
}
extern "C" void harness_position_counter()  /* vf: bounds=global_position_counter_set_to_any_value_in_[2^31-64,2^31+64]_or_[2^32-96,2^32-1]_(symbolic,solver-decided)_before_the_observed_call;3_observed_calls reach=end */
{
    int b = vf_pick("!observed", 3);
    Rec first = call_B_numeric(b);
    unsigned off = vf_uint("offset");
    int region = vf_pick("region", 2);
    vf_assume(off <= 128);
    uint32_t start = region == 0 ? (uint32_t)(0x80000000u - 64u + off) : (uint32_t)(0xFFFFFFFFu - 96u + (off % 97));
    UTAP::tracker.position = start;
    Rec again = call_B_numeric(b);
    vf_assert(first.threw == again.threw && first.rc == again.rc, "same-outcome-for-every-counter-value");
    vf_assert(first.diags.size() == again.diags.size(), "same-number-of-diagnostics");
    bool same = first.dump == again.dump;
    for (size_t k = 0; k < first.diags.size() && k < again.diags.size(); k++) {
        const DiagRec &x = first.diags[k], &y = again.diags[k];
        if (x.msg != y.msg || x.path != y.path) same = false;
        // numeric fields may be symbolic terms over the counter: the solver decides equality for all its values
        vf_assert(x.line == y.line && x.eline == y.eline, "same-lines-for-every-counter-value");
        vf_assert(x.col == y.col && x.ecol == y.ecol, "same-columns-for-every-counter-value");
    }
    vf_assert(same, "same-messages-paths-and-document");
    vf_reach("end");
}
