// C07: identifiers bind to the innermost preceding declaration in scope.
// Real code: lexer, grammar, Expression/Statement/DocumentBuilder push_frame/popFrame sites (functions, blocks, iterations, quantifiers, templates,
// select binders, instantiations), frame_t::resolve/add_symbol, expr_identifier, expr_dot (process-qualified names with argument substitution).
// Symbolic: which scope levels declare the name `v` (each level with a distinguishable type int[0,10+level]), and the use site.
// Oracle: nearest enclosing scope among the present ones that textually precedes the use; none => unknown-identifier diagnostic.
#include "docdump.h"

enum { G, TP, TL, FP, FL, BL, IT, SB, QB, NLEV };   // global, template parameter, template local, function parameter, function local, block local, iteration binder, select binder, quantifier binder
static const char* LEVNAME[] = {"global", "template-parameter", "template-local", "function-parameter", "function-local", "block-local", "iteration-binder", "select-binder", "quantifier-binder"};
enum { U_GINIT, U_TINIT, U_FOR, U_BLOCK, U_FUN, U_FUN_EARLY, U_GUARD, U_QUANT, U_UPDATE, U_INV, U_SYSTEM, U_AFTER_QUANT, NUSE };
static const char* USENAME[] = {"global-initialiser", "template-initialiser", "for-body", "block-after-for", "function-after-block", "function-before-local", "guard", "quantifier-body", "update", "invariant", "system-declarations", "guard-after-quantifier"};
static std::string rng(int level) { return "const int[0," + std::to_string(10 + level) + "]"; }
static std::string brng(int level) { return "int[0," + std::to_string(10 + level) + "]"; }   // binder domains
static std::string nm(bool present, const char* other) { return present ? "v" : other; }

// upper bound of the range type of a symbol = 10 + level of the declaration it came from
static int level_of(symbol_t s)
{
    type_t t = s.get_type();
    while (!t.unknown() && t.get_kind() != RANGE && t.size() > 0) t = t[0];
    if (t.unknown() || t.get_kind() != RANGE) return -1;
    auto r = t.get_range();
    if (r.second.empty() || r.second.get_kind() != CONSTANT) return -1;
    return r.second.get_value() - 10;
}
static bool find_v(const expression_t& e, symbol_t& out)
{
    if (e.empty()) return false;
    if (e.get_kind() == IDENTIFIER && e.get_symbol().get_name() == "v") { out = e.get_symbol(); return true; }
    for (size_t k = 0; k < e.get_size(); k++) if (find_v(e.get(k), out)) return true;
    return false;
}
static bool find_v_last(const expression_t& e, symbol_t& out)
{
    if (e.empty()) return false;
    bool f = false;
    if (e.get_kind() == IDENTIFIER && e.get_symbol() != symbol_t() && e.get_symbol().get_name() == "v") { out = e.get_symbol(); f = true; }
    for (size_t k = 0; k < e.get_size(); k++) if (find_v_last(e.get(k), out)) f = true;
    return f;
}
static variable_t* var_named(std::list<variable_t>& vs, const char* n) { for (auto& x : vs) if (x.uid.get_name() == n) return &x; return nullptr; }

extern "C" void harness_scopes()  /* vf: bounds=name_declared_at_any_subset_of_9_scope_levels(global_early/late,template_parameter|local,function_parameter|local,block,for-iteration,select,quantifier)_x_12_use_sites_x_nested_brace-less_iteration_x_3_quantifier_kinds_x_closed_quantifiers_in_declarations reach=end */
{
    int use = vf_pick("!use", NUSE);
    // scopes visible at the use site, innermost first (the oracle's search order)
    std::vector<int> vis;
    bool has[NLEV];
#ifdef VF_TIER_THOROUGH
    for (int l = 0; l < NLEV; l++) has[l] = vf_pick((std::string("!has_") + LEVNAME[l]).c_str(), 2);
#else
    // quick tier: the levels that can be visible at the use site vary independently, all others are present or absent together
    {
        static const int VIS[NUSE][8] = {{G, -1}, {TL, TP, G, -1}, {IT, BL, FL, FP, TL, TP, G, -1}, {BL, FL, FP, TL, TP, G, -1}, {FL, FP, TL, TP, G, -1}, {FP, TL, TP, G, -1}, {SB, TL, TP, G, -1},
                                         {QB, SB, TL, TP, G, -1}, {SB, TL, TP, G, -1}, {TL, TP, G, -1}, {G, -1}, {SB, TL, TP, G, -1}};
        bool rel[NLEV] = {};
        for (int k = 0; VIS[use][k] >= 0; k++) rel[VIS[use][k]] = true;
        bool others = vf_pick("!other_levels_present", 2);
        for (int l = 0; l < NLEV; l++) has[l] = rel[l] ? vf_pick((std::string("!has_") + LEVNAME[l]).c_str(), 2) : others;
        if (has[TP] && has[TL]) { if (!rel[TL]) has[TL] = false; }
        if (has[FP] && has[FL]) { if (!rel[FL]) has[FL] = false; }
    }
#endif
    bool g_late = vf_pick("!global_declared_after_first_use", 2);
    vf_assume(!(has[TP] && has[TL]) && !(has[FP] && has[FL]));   // same frame: a duplicate definition, not a scoping question
    vf_assume(has[G] || !g_late);
    int qk = vf_pick("!quantifier", 3);   // forall, exists, sum
    static const char* QN[] = {"forall", "exists", "sum"};
    auto quant = [&](const std::string& body_bool, const std::string& body_int) {   // a boolean expression built from the chosen quantifier
        std::string head = std::string(QN[qk]) + " (" + nm(has[QB], "qb") + " : " + brng(QB) + ") ";
        return qk == 2 ? "(" + head + body_int + ") >= 0" : "(" + head + body_bool + ")";
    };
    bool decl_quant = vf_pick("!quantifier_in_declarations", 2);   // closed quantifiers in the global and template-level declarations before the use
    vf_assume(decl_quant || use == U_QUANT || use == U_AFTER_QUANT || qk == 0);   // the quantifier kind only matters where a quantifier is written
    // ---- render
    std::string s;
    if (has[G] && !g_late) s += rng(G) + " v = 0;\n";
    s += "int w;\n";
    if (decl_quant) s += "const bool gq = " + quant("true", "1") + ";\n";
    s += use == U_GINIT ? "int u = v;\n" : "int u_unused = 0;\n";
    if (has[G] && g_late) s += rng(G) + " v = 0;\n";
    s += "process P(" + rng(TP) + " " + nm(has[TP], "tp") + ") {\n";
    if (has[TL]) s += " " + rng(TL) + " v = 0;\n";
    if (decl_quant) s += " const bool tq = " + quant("true", "1") + ";\n";
    if (use == U_TINIT) s += " int u = v;\n";
    s += " int f(" + rng(FP) + " " + nm(has[FP], "fp") + ") {\n";
    if (use == U_FUN_EARLY) s += "  int u = v;\n";
    if (has[FL]) s += "  " + rng(FL) + " v = 0;\n";
    s += "  {\n";
    if (has[BL]) s += "   " + rng(BL) + " v = 0;\n";
    // the loop body is either a block or directly a second, brace-less iteration (its binder never shadows v)
    bool nested_loop = vf_pick("!nested_iteration", 2);
    vf_assume(!nested_loop || use == U_FOR || use == U_BLOCK || use == U_FUN);   // only matters for uses inside or after the loops
    s += "   for (" + nm(has[IT], "it") + " : " + brng(IT) + ") " + (nested_loop ? "for (it2 : int[0,1]) " : "") + "{" + (use == U_FOR ? " int u = v;" : " w = 0;") + " }\n";
    s += use == U_BLOCK ? "   { int u = v; }\n" : "";
    s += "  }\n";
    s += use == U_FUN ? "  { int u = v; }\n" : "";
    s += "  return 0;\n }\n";
    s += std::string(" state A") + (use == U_INV ? " { v >= 0 }" : "") + ", B;\n init A;\n trans A -> B { select " + nm(has[SB], "sb") + " : " + brng(SB) + ";";
    if (use == U_GUARD) s += " guard v >= 0;";
    if (use == U_QUANT) s += " guard " + quant("v >= 0", "v") + ";";
    if (use == U_AFTER_QUANT) s += " guard " + quant("w >= 0", "w") + " && v >= 0;";
    if (use == U_UPDATE) s += " assign w = v;";
    s += " };\n}\nP0 = P(1);\n";
    s += use == U_SYSTEM ? "int u = v;\n" : "";
    s += "system P0;\n";
    // ---- oracle
    switch (use) {
    case U_GINIT: if (!g_late) vis = {G}; break;
    case U_TINIT: case U_INV: vis = {TL, TP, G}; break;
    case U_FOR: vis = {IT, BL, FL, FP, TL, TP, G}; break;
    case U_BLOCK: vis = {BL, FL, FP, TL, TP, G}; break;
    case U_FUN: vis = {FL, FP, TL, TP, G}; break;
    case U_FUN_EARLY: vis = {FP, TL, TP, G}; break;
    case U_GUARD: case U_UPDATE: case U_AFTER_QUANT: vis = {SB, TL, TP, G}; break;
    case U_QUANT: vis = {QB, SB, TL, TP, G}; break;
    case U_SYSTEM: vis = {G}; break;
    }
    int want = -1;
    for (int l : vis) if (has[l]) { want = l; break; }
    // ---- run
    Model m;
    bool ok = m.load(s);
    vf_note(s.c_str()); vf_note(USENAME[use]); vf_notei("expected_level", want); vf_notei("accepted", ok);
    if (!ok) note_errors(m.doc);
    vf_reach("end");
    if (want < 0) { vf_assert(m.has_error("$Unknown_identifier"), "undeclared-name-reported-as-unknown"); return; }
    vf_assert(ok, "model-with-visible-declaration-accepted");
    if (!ok) return;
    // ---- locate the use site
    template_t& t = m.doc.get_templates().front();
    expression_t e;
    switch (use) {
    case U_GINIT: case U_SYSTEM: { auto* u = var_named(m.doc.get_globals().variables, "u"); if (u) e = u->init; break; }
    case U_TINIT: { auto* u = var_named(t.variables, "u"); if (u) e = u->init; break; }
    case U_FOR: case U_BLOCK: case U_FUN: case U_FUN_EARLY: { auto* u = var_named(t.functions.front().variables, "u"); if (u) e = u->init; break; }
    case U_GUARD: case U_QUANT: e = t.edges.front().guard; break;
    case U_AFTER_QUANT: e = t.edges.front().guard; if (e.get_kind() == AND && e.get_size() == 2) e = e.get(1); break;   // the conjunct after the closed quantifier
    case U_UPDATE: e = t.edges.front().assign; break;
    case U_INV: e = t.locations.front().invariant; break;
    }
    symbol_t sym;
    bool found = find_v(e, sym);
    vf_assert(found, "use-site-found");
    if (!found) return;
    vf_notei("bound_level", level_of(sym));
    vf_assert(level_of(sym) == want, "binds-to-innermost-preceding-declaration");
}

// binding after a binder construct that is itself rejected: a quantifier, select or iteration whose domain is no integer range or scalar set
// is reported, and every later identifier still binds as the scopes say (the rejected construct must not leave a scope open or close one too many)
extern "C" void harness_scopes_after_rejected_binder()  /* vf: bounds=rejected_binder_construct(forall/exists/sum_over_bool,clock,chan,struct;select_over_bool)_x_4_later_use_sites(same_label,later_label_of_the_edge,next_edge,later_statement)_x_name_declared_at_subsets_of(global,template-local,select-binder,function-local) reach=end */
{
    int bad = vf_pick("!rejected_binder", 9), use = vf_pick("!use", 4);
    bool hg = vf_pick("!has_global", 2), htl = vf_pick("!has_template-local", 2), hsb = vf_pick("!has_select-binder", 2), hfl = vf_pick("!has_function-local", 2);
    static const char* BAD[] = {"forall (zb : bool) true", "exists (zb : clock) true", "(sum (zb : chan) 1) >= 0", "forall (zb : S_t) true", "exists (zb : bool) zb", "forall (v : bool) true",
                                "forall (zb : double) true", "(sum (zb : bool) 1) >= 0", "", ""};
    bool in_select = bad == 8, in_loop = bad == 9;
    vf_assume(!in_loop || use == 3);            // the iteration lives in the function; its later statement is the use
    vf_assume(in_loop || use != 3 || bad < 2);   // the function's own quantifier variants: two suffice
    std::string s;
    if (hg) s += rng(G) + " v = 0;\n";
    s += "int w; bool ok; typedef struct { int f; } S_t; chan c;\n";
    s += "process P() {\n";
    if (htl) s += " " + rng(TL) + " v = 0;\n";
    s += " int f() {\n";
    if (hfl) s += "  " + rng(FL) + " v = 0;\n";
    if (in_loop) s += "  for (zi : clock) { w = 0; }\n";
    else if (use == 3) s += std::string("  ok = ") + BAD[bad] + ";\n";
    s += std::string("  { int u = ") + (use == 3 ? "v" : "w") + "; }\n  return 0;\n }\n";
    s += " state A, B;\n init A;\n";
    // edge 1 carries the rejected construct, edge 2 is untouched
    std::string sel = std::string(" select ") + (in_select ? "zs : bool, " : "") + nm(hsb, "sb") + " : " + brng(SB) + ";";
    std::string g = (use != 3 && !in_select) ? std::string("(") + BAD[bad] + ")" : std::string("w >= 0");
    s += " trans A -> B {" + sel + " guard " + g + (use == 0 ? " && v >= 0" : "") + "; assign w = " + (use == 1 ? "v" : "1") + "; },\n";
    s += std::string("  B -> A { guard ") + (use == 2 ? "v >= 0" : "w >= 0") + "; };\n}\nsystem P;\n";
    std::vector<int> vis;
    switch (use) { case 0: case 1: vis = {SB, TL, G}; break; case 2: vis = {TL, G}; break; default: vis = {FL, TL, G}; break; }
    bool has[NLEV] = {}; has[G] = hg; has[TL] = htl; has[SB] = hsb; has[FL] = hfl;
    int want = -1;
    for (int l : vis) if (has[l]) { want = l; break; }
    Document doc; DocumentBuilder b(doc);
    bool threw = false;
    try { parse_XTA(s.c_str(), &b, true); } catch (std::exception& ex) { threw = true; vf_note(ex.what()); }
    vf_note(s.c_str()); vf_notei("expected_level", want); note_errors(doc);
    vf_reach("end");
    vf_assert(!threw, "parse-returns");
    if (threw) return;
    vf_assert(doc.has_errors(), "rejected-binder-reported");
    bool unknown = false;
    for (auto& e : doc.get_errors()) if (e.msg.find("$Unknown_identifier") != std::string::npos && e.msg.find("v") != std::string::npos) unknown = true;
    if (want < 0) { vf_assert(unknown, "undeclared-name-reported-as-unknown"); return; }
    vf_assert(!unknown, "declared-name-not-reported-as-unknown");
    vf_assert(doc.get_templates().size() == 1, "template-built");
    if (doc.get_templates().size() != 1) return;
    template_t& t = doc.get_templates().front();
    expression_t e;
    if (use == 3) { if (!t.functions.empty()) { auto* u = var_named(t.functions.front().variables, "u"); if (u) e = u->init; } }
    else if (use == 2) { if (t.edges.size() == 2) e = t.edges.back().guard; }
    else if (use == 1) { if (!t.edges.empty()) e = t.edges.front().assign; }
    else if (!t.edges.empty()) e = t.edges.front().guard;
    symbol_t sym;
    bool found = find_v_last(e, sym);
    vf_assert(found, "use-site-found");
    if (!found) return;
    vf_notei("bound_level", level_of(sym));
    vf_assert(level_of(sym) == want, "binds-to-innermost-preceding-declaration");
}

// type names follow the same rule: a typedef in an inner scope may reuse the name of an outer one, and a declaration that uses the name gets the
// innermost preceding typedef
extern "C" void harness_type_names()  /* vf: bounds=type_name_declared_at_any_subset_of_4_levels(global,template,function,block)_with_distinguishable_ranges_x_3_use_sites(template_declarations,function_body,nested_block);at_least_the_global_one_present reach=end */
{
    enum { TG, TT, TF, TB };
    bool has[4]; has[TG] = true;
    has[TT] = vf_pick("!typedef_in_template", 2); has[TF] = vf_pick("!typedef_in_function", 2); has[TB] = vf_pick("!typedef_in_block", 2);
    int use = vf_pick("!use", 3);   // 0 template-level variable, 1 variable in the function body, 2 variable in the nested block
    auto td = [&](int l) { return "typedef int[0," + std::to_string(20 + l) + "] idx_t;"; };
    std::string s = td(TG) + "\n idx_t g0 = 0;\nprocess P() {\n";
    if (has[TT]) s += " " + td(TT) + "\n";
    s += " idx_t u0 = 0;\n int f() {\n";
    if (has[TF]) s += "  " + td(TF) + "\n";
    s += "  idx_t u1 = 0;\n  {\n";
    if (has[TB]) s += "   " + td(TB) + "\n";
    s += "   idx_t u2 = 0;\n  }\n  return 0;\n }\n state A; init A;\n}\nsystem P;\n";
    Model m;
    bool ok = m.load(s);
    vf_note(s.c_str()); if (!ok) note_errors(m.doc);
    vf_reach("end");
    vf_assert(ok, "model-with-shadowing-type-names-accepted");
    if (!ok) return;
    template_t& t = m.doc.get_templates().front();
    variable_t* v = use == 0 ? var_named(t.variables, "u0") : var_named(t.functions.front().variables, use == 1 ? "u1" : "u2");
    vf_assert(v != nullptr, "use-site-found");
    if (!v) return;
    int want = TG;
    if (has[TT]) want = TT;
    if (use >= 1 && has[TF]) want = TF;
    if (use == 2 && has[TB]) want = TB;
    int got = level_of(v->uid) - 10;   // level_of subtracts 10 from the upper bound
    vf_notei("expected_level", want); vf_notei("bound_level", got);
    vf_assert(got == want, "declaration-uses-the-innermost-preceding-typedef");
    auto* g0 = var_named(m.doc.get_globals().variables, "g0");
    vf_assert(g0 && level_of(g0->uid) - 10 == TG, "global-declaration-uses-the-global-typedef");
}

// process-qualified names in queries: P.x binds to the declaration x of P's template with P's arguments substituted
extern "C" void harness_process_qualified()  /* vf: bounds=query_use_sites_with/without_process_qualification;member_declared_in_template/global/both;two_processes_with_different_arguments;member_type_depends_on_two_parameters_bound_along_3_routes(direct,partial_instantiation,chain_of_two) */
{
    bool tl = vf_pick("!template_declares", 2), gl = vf_pick("!global_declares", 2), qualified = vf_pick("!qualified", 2), second = vf_pick("!second_process", 2), arr = vf_pick("!array_member", 2);
    std::string s;
    if (gl) s += rng(G) + " v = 0;\n";
    // the processes get their arguments directly, through one partial instantiation, or through a chain of two (each step binds one parameter)
    int route = vf_pick("!route", 3);
    s += "process P(const int lo, const int n) {\n";
    if (tl) s += arr ? " int[0,12] v[n];\n" : " int[lo,n] v;\n";
    s += " state A; init A;\n}\n";
    if (route == 0) s += "P1 = P(1, 3); P2 = P(1, 5);\n";
    else if (route == 1) s += "Q(const int k) = P(1, k); P1 = Q(3); P2 = Q(5);\n";
    else s += "Q(const int k, const int l) = P(l, k); R(const int j) = Q(j, 1); P1 = R(3); P2 = R(5);\n";
    s += "system P1, P2;\n";
    Model m;
    bool ok = m.load(s);
    vf_assert(ok, "model-accepted");

    struct QB : StatementBuilder {
        expression_t query;
        explicit QB(Document& d): StatementBuilder{d} {}
        void property() override { if (fragments.size()) { query = fragments[0]; fragments.pop(); } }
        void strategy_declaration(const char*) override {}
        variable_t* addVariable(type_t, const std::string&, expression_t, position_t) override { throw NotSupportedException("addVariable"); }
        bool addFunction(type_t, const std::string&, position_t) override { throw NotSupportedException("addFunction"); }
        bool allowProcessReferences() override { return true; }
    } qb(m.doc);
    std::string q = std::string("E<> ") + (qualified ? (second ? "P2." : "P1.") : "") + (arr && tl && qualified ? "v[0] >= 0" : "v >= 0");
    size_t n0 = m.doc.get_errors().size();
    parseProperty(q.c_str(), &qb, "");
    bool qok = m.doc.get_errors().size() == n0 && !qb.query.empty();
    vf_note(s.c_str()); vf_note(q.c_str()); vf_notei("query_accepted", qok);
    bool visible = qualified ? tl : gl;
    vf_reach("end");
    if (!visible) { vf_assert(!qok, "name-without-visible-declaration-rejected"); return; }
    vf_assert(qok, "query-accepted");
    if (!qok) return;
    // find the node that refers to v
    std::function<bool(const expression_t&, expression_t&)> findref = [&](const expression_t& e, expression_t& out) {
        if (e.empty()) return false;
        if (e.get_kind() == DOT || (e.get_kind() == IDENTIFIER && e.get_symbol().get_name() == "v")) { out = e; return true; }
        for (size_t k = 0; k < e.get_size(); k++) if (findref(e.get(k), out)) return true;
        return false; };
    expression_t ref;
    vf_assert(findref(qb.query, ref), "reference-found");
    if (!qualified) { vf_assert(ref.get_kind() == IDENTIFIER && level_of(ref.get_symbol()) == G, "unqualified-name-binds-to-global"); return; }
    vf_assert(ref.get_kind() == DOT && ref.get(0).get_kind() == IDENTIFIER && ref.get(0).get_symbol().get_name() == (second ? "P2" : "P1"), "qualified-name-selects-the-process");
    // the member's type has the process's argument substituted for the template parameter
    type_t ty = ref.get_type();
    int want = second ? 5 : 3;
    if (!arr) {
        while (!ty.unknown() && ty.get_kind() != RANGE && ty.size() > 0) ty = ty[0];
        vf_assert(!ty.unknown() && ty.get_kind() == RANGE, "member-has-range-type");
        auto r = ty.get_range();
        std::string up = xs(r.second), lowb = xs(r.first);
        vf_note(lowb.c_str()); vf_note(up.c_str());
        vf_assert(up == std::to_string(want) && lowb == "1", "argument-substituted-in-member-type");
    } else {
        while (!ty.unknown() && ty.get_kind() != ARRAY && ty.size() > 0) ty = ty[0];
        vf_assert(!ty.unknown() && ty.get_kind() == ARRAY, "member-has-array-type");
        type_t sz = ty.get_array_size();
        while (!sz.unknown() && sz.get_kind() != RANGE && sz.size() > 0) sz = sz[0];
        auto r = sz.get_range();
        std::string up = xs(r.second);
        vf_note(up.c_str());
        vf_assert(up == std::to_string(want - 1) || up == std::to_string(want) + " - 1", "argument-substituted-in-member-array-size");
    }
}
