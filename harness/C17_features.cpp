// C17: analysis methods are reported as supported only when the model permits them.
// Real code: lexer, grammar, builders, TypeChecker, FeatureChecker (visitTemplateBefore / visitVariable / visitEdge / visitGuard / visitAssignment /
// visitLocation / isRateDisallowedInSymbolic / visitFrame), expression_t::uses_fp / uses_hybrid, Document::accept, supported-methods record.
// Symbolic: the restricting feature, its placement (guard or invariant, number of conjuncts and conjunct position, operand order, relational
// operator, element of the update list, global or local declaration, declaration order), whether the carrying template is instantiated.
// Oracle from the property text: supported => permitted for each method; a never-instantiated carrier and the declaration order do not change the verdict.
#include "common.h"

enum { F_NONE, F_CMP_FP, F_ASSIGN_FP, F_INIT_FP, F_RATE, F_DYNAMIC, F_CHAN, F_CHAN_PRIO, F_PROC_PRIO, NFEAT };
static const char* FNAME[] = {"none", "clock-compared-with-fp", "assignment-from-fp", "clock-initialised-with-fp", "clock-rate", "dynamic-template", "non-broadcast-channel", "channel-priority", "process-priority"};
static const char* REL[] = {"<", "<=", "==", ">=", ">", "!="};
static const char* FILL[] = {"i < 3", "i >= 0", "x <= 10", "h' == 3"};

#ifdef VF_TIER_THOROUGH
static const int NFPFORM = 3;
#else
static const int NFPFORM = 2;
#endif
struct Verdict { bool ok, sym, sto, con; };
static Verdict analyse(const std::string& xta)
{
    Model m;
    Verdict v{};
    v.ok = m.load(xta, true);
    if (!v.ok) { note_errors(m.doc); return v; }
    auto s = m.doc.get_supported_methods();
    v.sym = s.symbolic; v.sto = s.stochastic; v.con = s.concrete;
    return v;
}

struct Parts { std::string gdecl_before, gdecl_after, ldecl, inv, guard, update, system; int form = 0; };   // form: how the carrier reaches the system line
static std::string render(const Parts& p, bool instantiated)
{
    std::string s = p.gdecl_before + "clock x; hybrid clock h; double d = 1.5; int i; broadcast chan bc;\n"
                    "const double CD = 1.5; typedef double real_t; real_t rv = 0.5; double fd() { return 1.5; } struct { double f; } rs; double da[2];\n" + p.gdecl_after;
    // form 0: T() listed directly; 1: T(const int[0,1] id) listed as a process set; 2: T(const int[0,1] id) through a partial instantiation that leaves id open; 3: fully bound instance
    s += std::string("process T(") + (p.form ? "const int[0,1] id" : "") + ") {\n" + p.ldecl + " state A" + (p.inv.empty() ? "" : " { " + p.inv + " }") + ", B;\n init A;\n trans A -> B {" +
         (p.guard.empty() ? "" : " guard " + p.guard + ";") + (p.update.empty() ? "" : " assign " + p.update + ";") + " };\n}\n";
    s += "process Other() { state S; init S; }\n";
    if (!p.system.empty()) s += p.system;
    else if (!instantiated) s += "system Other;\n";
    else if (p.form == 2) s += "H(const int[0,1] b) = T(b);\nsystem Other, H;\n";
    else if (p.form == 3) s += "T0 = T(1);\nsystem Other, T0;\n";
    else s += "system Other, T;\n";
    return s;
}
// conjunction of n conjuncts with `feat` at position pos, the others from FILL (a symbolic filler choice for one of them)
static std::string conj(int n, int pos, const std::string& feat, int filler, bool guard)
{
    std::string s;
    for (int k = 0; k < n; k++) {
        if (k) s += " && ";
        if (k == pos) s += feat; else { int f = (k == (pos + 1) % n) ? filler : 0; if (guard && f == 3) f = 1; s += FILL[f]; }
    }
    return s;
}

extern "C" void harness_features()  /* vf: bounds=8_restricting_features_x_placements(guard/invariant,1_or_3_conjuncts,conjunct_position,operand_order,6_relational_operators,update_list_position_0..2,global/local_declaration,declaration_order,rate_values)_x_carrier_instantiated_or_not_x_4_instantiation_forms(direct,process_set,partial_instantiation,bound_instance)_x_5_priority_list_shapes reach=end,accepted */
{
    int feat = vf_range("!feature", 1, NFEAT - 1), inst = vf_pick("!instantiated", 2);
    Parts p;
    bool simple = true;   // the instantiation form varies with the simplest placement of each feature only
    bool restricts_symbolic = false, restricts_stochastic = false, restricts_concrete = false, in_template = true;
    switch (feat) {
    case F_CMP_FP: {
        int place = vf_pick("!place", 2), n = vf_pick("!three_conjuncts", 2) ? 3 : 1; simple = n == 1; int pos = n == 1 ? 0 : vf_pick("!position", 3), swap = vf_pick("!swapped", 2), rel = vf_pick("!rel", 6), form = vf_pick("!fp_form", NFPFORM + 5);
        // the floating-point operand: literal, variable, arithmetic - and the carriers whose type is double only behind a wrapper (constant, typedef, call, field, element)
        static const char* FP[] = {"1.5", "d", "i + 0.5", "CD", "rv", "fd()", "rs.f", "da[1]"};
        if (form >= NFPFORM) { vf_assume(n == 1 && rel < 2); form = 3 + (form - NFPFORM); }
        std::string c = swap ? std::string(FP[form]) + " " + REL[rel] + " x" : std::string("x ") + REL[rel] + " " + FP[form];
        (place ? p.inv : p.guard) = conj(n, pos, c, vf_pick("!filler", NFPFORM), !place);
        restricts_symbolic = true; break; }
    case F_ASSIGN_FP: {
        int n = vf_pick("!three_updates", 2) ? 3 : 1; simple = n == 1; int pos = n == 1 ? 0 : vf_pick("!position", 3), form = vf_pick("!form", 10);
        static const char* AS[] = {"x = 1.5", "x = d", "d = 2.5", "d = d + 1.0", "x = i + 0.5", "x = CD", "x = rv", "x = fd()", "x = rs.f", "x = da[1]"};
        if (form >= 5) vf_assume(n == 1);
        for (int k = 0; k < n; k++) p.update += std::string(k ? ", " : "") + (k == pos ? AS[form] : (k % 2 ? "i = 0" : "x = 0"));
        restricts_symbolic = true; break; }
    case F_INIT_FP: {
        int local = vf_pick("!local", 2), form = vf_pick("!form", 2), after = vf_pick("!declared_last", 2);
        std::string dcl = std::string("clock y = ") + (form ? "0.5 + 1.0" : "1.5") + ";\n";
        if (local) p.ldecl = (after ? " clock z; " : " ") + dcl + (after ? "" : " clock z;\n"); else { (after ? p.gdecl_after : p.gdecl_before) = dcl; in_template = false; }
        restricts_symbolic = true; break; }
    case F_RATE: {
        int n = vf_pick("!three_conjuncts", 2) ? 3 : 1; simple = n == 1; int pos = n == 1 ? 0 : vf_pick("!position", 3), swap = vf_pick("!swapped", 2), val = vf_pick("!rate", 6), hyb = vf_pick("!hybrid_clock", 2);
        static const char* RV[] = {"0", "1", "2", "3", "1 + 1", "7"};
        std::string clk = hyb ? "h'" : "x'";
        std::string c = swap ? std::string(RV[val]) + " == " + clk : clk + " == " + RV[val];
        p.inv = conj(n, pos, c, vf_pick("!filler", 4), false);
        restricts_symbolic = !hyb && val >= 2; break; }
    case F_DYNAMIC: (vf_pick("!declared_last", 2) ? p.gdecl_after : p.gdecl_before) = "dynamic D(int p);\n"; restricts_symbolic = true; in_template = false; break;
    case F_CHAN: {
        int kind = vf_pick("!kind", 6), after = vf_pick("!declared_last", 2);
        static const char* CH[] = {"chan c;\n", "urgent chan c;\n", "chan c[2];\n", "chan c, c2; broadcast chan b2;\n", "broadcast chan b2; chan c;\n", "typedef chan CT; CT c;\n"};
        if (vf_pick("!local", 2)) p.ldecl = std::string(" ") + CH[kind]; else { (after ? p.gdecl_after : p.gdecl_before) = CH[kind]; in_template = false; }
        restricts_stochastic = true; break; }
    case F_CHAN_PRIO: { static const char* PR[] = {"chan priority bc < b2;\n", "chan priority bc;\n", "chan priority bc, b2;\n", "chan priority default < bc;\n", "chan priority b2, default;\n"}; p.gdecl_after = std::string("broadcast chan b2;\n") + PR[vf_pick("!priority_form", 5)]; } restricts_stochastic = restricts_concrete = true; in_template = false; break;
    case F_PROC_PRIO: simple = false; p.system = inst ? "system Other < T;\n" : "system Other;\n"; restricts_stochastic = restricts_concrete = inst; in_template = false; break;
    }
    p.form = (simple && in_template && inst) ? vf_pick("!instantiation_form", 4) : 0;
    Verdict v = analyse(render(p, inst));
    vf_note(FNAME[feat]); vf_note(render(p, inst).c_str()); vf_notei("accepted", v.ok); vf_notei("symbolic", v.sym); vf_notei("stochastic", v.sto); vf_notei("concrete", v.con);
    vf_reach("end");
    if (!v.ok) return;   // the property speaks about accepted models only
    vf_reach("accepted");
    bool active = inst || !in_template;   // features inside a never-instantiated template do not count
    vf_assert(!v.sym || !(restricts_symbolic && active), "symbolic-only-when-permitted");
    vf_assert(!v.sto || !(restricts_stochastic && active), "stochastic-only-when-permitted");
    vf_assert(!v.con || !(restricts_concrete && active), "concrete-only-when-permitted");
    if (in_template && !inst) {
        // never instantiated: verdict must equal that of the model without the carrier's feature
        Parts q;
        Verdict b = analyse(render(q, false));
        vf_assert(b.ok && v.sym == b.sym && v.sto == b.sto && v.con == b.con, "uninstantiated-template-does-not-affect-verdict");
    }
}

extern "C" void harness_declaration_order()  /* vf: bounds=two_restricting_or_neutral_declarations_in_either_order(6_global_declaration_kinds),two_templates_in_either_order */
{
    static const char* D[] = {"chan a;\n", "broadcast chan b;\n", "clock y = 1.5;\n", "clock z;\n", "urgent chan u;\n", "urgent broadcast chan ub;\n", "int k = 1;\n"};
    int a = vf_pick("!decl_a", 7), b = vf_pick("!decl_b", 7), tswap = vf_pick("!templates_swapped", 2);
    vf_assume(a < b);
    auto mk = [&](bool ab, bool ts) {
        std::string g = ab ? std::string(D[a]) + D[b] : std::string(D[b]) + D[a];
        std::string t1 = "process T1() { clock x; state A, B; init A; trans A -> B { assign x = 1.5; }; }\n", t2 = "process T2() { clock x; state A { x' == 2 }; init A; }\nprocess T3() { state A; init A; }\n";
        return g + "double d; int i;\n" + (ts ? t2 + t1 : t1 + t2) + "system T3;\n";
    };
    Verdict v1 = analyse(mk(true, tswap)), v2 = analyse(mk(false, !tswap));
    vf_assert(v1.ok && v2.ok, "models-accepted");
    vf_notei("sym1", v1.sym); vf_notei("sto1", v1.sto); vf_notei("sym2", v2.sym); vf_notei("sto2", v2.sto);
    vf_assert(v1.sym == v2.sym && v1.sto == v2.sto && v1.con == v2.con, "declaration-order-does-not-affect-verdict");
    bool nonbroadcast = a == 0 || b == 0 || a == 4 || b == 4, fpinit = a == 2 || b == 2;
    vf_assert(!v1.sto || !nonbroadcast, "stochastic-only-when-all-channels-broadcast");
    vf_assert(!v1.sym || !fpinit, "symbolic-only-without-fp-clock-initialiser");
    vf_reach("end");
}
