// C09: accept/reject verdicts are invariant under meaning-preserving rewrites.
// Real code: lexer (white space, comments, keyword aliases, soft keywords), grammar, builders, TypeChecker, FeatureChecker.
// Symbolic: the model (accepted, rejected while building, rejected by the type checker), the rewrite family and its site:
//   redundant parentheses around a symbolic sub-expression; white space / line break / comment inserted at a symbolic token gap;
//   a keyword operator alias swapped with its symbolic form at a symbolic occurrence; a user identifier renamed consistently to a fresh name
//   (incl. the soft keywords A U W R E M sup inf bounds simulation).
// Oracle: diagnostics multiset (positions ignored), supported-methods verdict and canonical document dump equal up to the renaming.
#include "xmlmodel.h"

// \x01 ... \x02 delimit sub-expressions that may be wrapped in parentheses without changing the meaning
#define S "\x01"
#define E "\x02"
static const char* MODELS[] = {
    // 0: accepted
    "const int N = " S "3" E "; int cnt; bool flag; clock x; chan go; int buf[N];\n"
    "int inc(int v) { return " S S "v" E " + " S "1" E E "; }\n"
    "process P(const int id) {\n clock y;\n state Idle { " S S "x <= 5" E " && " S "y <= " S "7" E E E " }, Busy;\n init Idle;\n"
    " trans Idle -> Busy { select k : int[0, " S "N - 1" E "]; guard " S S S "cnt < N" E " && " S "!flag" E E " || " S S "buf[" S "k" E "]" E " > 0" E E "; sync go!; assign cnt = " S "inc(" S "cnt" E ")" E ", flag = " S "true" E ", y = 0; },\n"
    "  Busy -> Idle { guard " S "flag and " S "not " S "(cnt == 0)" E E E "; sync go?; assign flag := " S "false" E "; };\n}\n"
    "P1 = P(" S "1" E "); P2 = P(" S "1 + 1" E ");\nsystem P1, P2;\n",
    // 1: rejected while building (unknown identifier, duplicate definition)
    "const int N = " S "3" E "; int cnt; bool flag; clock x; chan go; int cnt;\n"
    "process P(const int id) {\n state Idle { " S "x <= 5" E " }, Busy;\n init Idle;\n"
    " trans Idle -> Busy { guard " S S "cnt < nope" E " && " S "!flag" E E "; sync go!; assign cnt = " S "cnt + 1" E "; },\n"
    "  Busy -> Idle { guard " S "flag and " S "not " S "(cnt == 0)" E E E "; assign flag := " S "missing" E "; };\n}\n"
    "P1 = P(" S "1" E ");\nsystem P1;\n",
    // 2: rejected by the type checker (channel assigned to a bool, clock disjunction, side effect in guard, write to a constant)
    "const int N = " S "3" E "; int cnt; bool flag; clock x; clock z; chan go;\n"
    "process P(const int id) {\n state Idle { " S "x <= 5" E " }, Busy;\n init Idle;\n"
    " trans Idle -> Busy { guard " S S "x < 3" E " || " S "z > 2" E E "; sync go!; assign flag = " S "go" E "; },\n"
    "  Busy -> Idle { guard " S S "cnt++" E " > 0" E " and " S "not flag" E "; assign N = " S "cnt + 1" E "; };\n}\n"
    "P1 = P(" S "1" E ");\nsystem P1;\n",
    // 3: accepted, stochastic flavour (broadcast channel, double, rates)
    "broadcast chan b; double d = " S "0.5" E "; clock x; int i;\n"
    "process Q() {\n state A { " S S "x' == 1" E " && " S "x <= 10" E E " ; " S "2" E " }, B;\n init A;\n"
    " trans A -> B { guard " S S "i >= 0" E " && " S "x >= " S "1" E E E "; sync b!; assign d = " S S "d" E " * " S "2.0" E E ", i = " S "i + 1" E "; };\n}\n"
    "system Q;\n",
    // 4: rejected: the text ends inside a block comment that is never closed
    "int g; clock x; chan c;\n"
    "process P() {\n state A { " S "x <= 5" E " }, B;\n init A;\n trans A -> B { guard " S S "g < 3" E " and " S "not " S "(g == 1)" E E E "; sync c!; assign g = " S "g + 1" E "; };\n}\n"
    "system P;\n/* the rest is missing"};
#undef S
#undef E
static const int NMODELS = 5;

struct Site { size_t open, close; };
static std::vector<Site> sites(const std::string& m)
{
    std::vector<Site> out; std::vector<size_t> st;
    for (size_t i = 0; i < m.size(); i++) { if (m[i] == 1) st.push_back(i); else if (m[i] == 2) { out.push_back({st.back(), i}); st.pop_back(); } }
    return out;
}
static std::string strip(const std::string& m, long wrap_open = -1, long wrap_close = -1)
{
    std::string o;
    for (size_t i = 0; i < m.size(); i++) {
        if (m[i] == 1) { if ((long)i == wrap_open) o += "("; } else if (m[i] == 2) { if ((long)i == wrap_close) o += ")"; } else o += m[i];
    }
    return o;
}
struct Obs { std::string dump, diag, methods; bool ok; };
static Obs observe(const std::string& xta, bool newsyntax = true)
{
    Model m(newsyntax); Obs o;
    o.ok = m.load(xta, true);
    o.dump = dump_document(m.doc); o.diag = dump_diagnostics(m.doc); o.methods = dump_methods(m.doc);
    return o;
}
static void compare(const Obs& a, const Obs& b, const std::string& btext)
{
    if (a.diag != b.diag || a.dump != b.dump) { vf_note(btext.c_str()); vf_note(a.diag.c_str()); vf_note(b.diag.c_str()); vf_note(b.dump.c_str()); }
    vf_assert(a.ok == b.ok, "verdict-unchanged");
    vf_assert(a.diag == b.diag, "diagnostics-unchanged");
    vf_assert(a.methods == b.methods, "supported-methods-unchanged");
    vf_assert(a.dump == b.dump, "document-unchanged");
}

extern "C" void harness_parentheses()  /* vf: bounds=5_models(accepted,rejected_in_builder,rejected_by_type_checker,stochastic,ending_in_an_unterminated_comment)_x_every_marked_sub-expression(10..22_per_model)_wrapped_in_redundant_parentheses */
{
    int mi = vf_pick("!model", NMODELS);
    std::string m = MODELS[mi];
    auto ss = sites(m);
    Obs base = observe(strip(m));
    int k = vf_pick("!site", 24);
    vf_assume(k < (int)ss.size());
    std::string r = strip(m, (long)ss[k].open, (long)ss[k].close);
    compare(base, observe(r), r);
    vf_reach("end");
}

extern "C" void harness_whitespace()  /* vf: bounds=quick:2_models_x_6_fillers(newline,block_comment,line_comment,doc_and_banner_comments_with_runs_of_stars,empty_comment);thorough:5_models_x_10_fillers;every_inter-token_space */
{
    // comments in the spellings people write: plain, doc style, banners with runs of stars before the terminator, an empty one
    static const char* FILL[] = {"\n", " /* c */ ", " // c\n", " /** title **/ ", " /***/ ", " /*** a * b\n *****/ ", "   ", "\t", " /* // */ ", " //* c\n"};
#ifdef VF_TIER_THOROUGH
    const int nm = NMODELS, nf = 10;
#else
    const int nm = 2, nf = 6;
#endif
    int mi = vf_pick("!model", nm);
#ifndef VF_TIER_THOROUGH
    if (mi == 1) mi = 4;   // quick tier: the accepted model and the one ending in an unterminated comment
#endif
    std::string m = strip(MODELS[mi]);
    Obs base = observe(m);
    std::vector<size_t> gaps;
    for (size_t i = 0; i < m.size(); i++) if (m[i] == ' ') gaps.push_back(i);
    int g = vf_pick("!gap", 160), f = vf_pick("!filler", nf);
    vf_assume(g < (int)gaps.size());
    vf_assume(m.find("/* the rest") == std::string::npos || gaps[g] < m.find("/* the rest"));   // a comment put inside the open comment would close it: not a redundant insertion
    std::string r = m.substr(0, gaps[g]) + FILL[f] + m.substr(gaps[g] + 1);
    compare(base, observe(r), r);
    vf_reach("end");
}

extern "C" void harness_aliases()  /* vf: bounds=4_models_x_every_occurrence_of_&&,||,!,and,or,not,:=,=_swapped_with_its_alias */
{
    static const char* FROM[] = {" && ", " || ", "!flag", " and ", " or ", "not ", " := ", "flag = ", "cnt = ", "d = "};
    static const char* TO[] = {" and ", " or ", "not flag", " && ", " || ", "!", " = ", "flag := ", "cnt := ", "d := "};
    int mi = vf_pick("!model", NMODELS), a = vf_pick("!alias", 10), occ = vf_pick("!occurrence", 4);
    std::string m = strip(MODELS[mi]);
    Obs base = observe(m);
    size_t pos = 0; int seen = -1;
    for (;;) { pos = m.find(FROM[a], pos); if (pos == std::string::npos) break; if (++seen == occ) break; pos++; }
    vf_assume(pos != std::string::npos);
    std::string r = m.substr(0, pos) + TO[a] + m.substr(pos + strlen(FROM[a]));
    compare(base, observe(r), r);
    vf_reach("end");
}

extern "C" void harness_renaming()  /* vf: bounds=4_models_x_16_user_identifiers_x_14_fresh_names(incl._soft_keywords_A,U,W,R,E,M,sup,inf,bounds,simulation_and_names_with_$_and_#) */
{
    static const char* IDS[] = {"N", "cnt", "flag", "x", "go", "buf", "inc", "v", "P", "id", "y", "Idle", "Busy", "k", "P1", "P2", "b", "d", "Q", "i", "z"};
    static const char* FRESH[] = {"zz9", "A", "U", "W", "R", "E", "M", "sup", "inf", "bounds", "simulation", "_q", "w$1", "n#2"};   // the identifier alphabet includes $ and #
    int mi = vf_pick("!model", NMODELS), id = vf_pick("!identifier", 21), fr = vf_pick("!fresh", 14);
    std::string m = strip(MODELS[mi]);
    vf_assume(rename_word(m, IDS[id], "#") != m);   // the identifier occurs in this model
    vf_assume(rename_word(m, FRESH[fr], "#") == m);   // and the new name is fresh
    Obs base = observe(m);
    std::string r = rename_word(m, IDS[id], FRESH[fr]);
    Obs o = observe(r);
    Obs want = base;
    want.dump = rename_word(base.dump, IDS[id], FRESH[fr]); want.diag = rename_word(base.diag, IDS[id], FRESH[fr]);
    // diagnostics are compared as multisets: re-sort after renaming
    auto resort = [](std::string s) { std::vector<std::string> l; size_t p = 0; while (p < s.size()) { size_t q = s.find('\n', p); l.push_back(s.substr(p, q - p)); p = q + 1; } std::sort(l.begin(), l.end()); std::string o; for (auto& x : l) o += x + "\n"; return o; };
    want.diag = resort(want.diag); o.diag = resort(o.diag);
    compare(want, o, r);
    vf_reach("end");
}

// old (3.x) syntax: the same rewrites on an old-syntax model
extern "C" void harness_old_syntax()  /* vf: bounds=old-syntax_model_x_(keyword_alias_swapped_at_any_occurrence|redundant_parentheses|comment/newline_at_any_space) reach=end */
{
    static const char* OLD =
        "clock x; int i; int j; chan c;\n"
        "process P {\n state A { x <= 5 }, B;\n init A;\n trans A -> B { guard i < 3 and not (j == 1), x >= 1; sync c!; assign i := i + 1; },\n"
        "  B -> A { guard i > 0 or j > 0 and i < 5; sync c?; assign j := 0; };\n}\n"
        "system P;\n";
    static const char* FROM[] = {" and ", " or ", "not ", " := ", " (j == 1)", " i > 0 or", " /sp/"};
    static const char* TO[] = {" && ", " || ", "!", " = ", " ((j == 1))", " (i > 0) or", ""};
    int rw = vf_pick("!rewrite", 7), occ = vf_pick("!occurrence", 3), fill = vf_pick("!filler", 5);
    std::string m = OLD;
    Obs base = observe(m, false);
    std::string r;
    if (rw < 6) {
        size_t pos = 0; int seen = -1;
        for (;;) { pos = m.find(FROM[rw], pos); if (pos == std::string::npos) break; if (++seen == occ) break; pos++; }
        vf_assume(pos != std::string::npos);
        r = m.substr(0, pos) + TO[rw] + m.substr(pos + strlen(FROM[rw]));
    } else {
        static const char* FILL[] = {"\n", " /* c */ ", " // c\n", " /** t **/ ", " /***/ "};
        std::vector<size_t> gaps; for (size_t i = 0; i < m.size(); i++) if (m[i] == ' ') gaps.push_back(i);
        size_t g = (size_t)(occ * 17 + fill * 5) % gaps.size();
        r = m.substr(0, gaps[g]) + FILL[fill] + m.substr(gaps[g] + 1);
    }
    vf_assert(base.ok, "old-syntax-model-accepted");
    compare(base, observe(r, false), r);
    vf_reach("end");
}

// renaming through the XML route: template and location names travel through <name> elements and the reader's own identifier check
extern "C" void harness_renaming_xml()  /* vf: bounds=2-template_XML_model_x_12_user_identifiers(templates,locations,variables,channel,select_binder,parameter,process)_x_8_fresh_names(incl._$_and_#,soft_keywords) reach=end */
{
    static const char* IDS[] = {"T", "U", "A", "B", "C", "g", "h", "c", "z", "k", "a", "P1"};
    static const char* FRESH[] = {"zz9", "wait$1", "Cell#2", "_q", "A1", "Wait_2", "E", "x9$#"};   // names the reader accepts in a <name> element (it refuses every keyword of any syntax there)
    int id = vf_pick("!identifier", 12), fr = vf_pick("!fresh", 8);
    auto build = [&](bool renamed) {
        MModel m;
        m.gdecl = "int g; int h; clock x; chan c; const int K = 2;";
        MTemplate t; t.name = "T"; t.params = "const int a"; t.decls = "clock z;";
        t.locs = {MLoc{"id0", "A", "z <= 5"}, MLoc{"id1", "B", "x <= 7"}, MLoc{"id2", "C"}};
        MEdge e0; e0.src = 0; e0.dst = 1; e0.select = "k : int[0,2]"; e0.guard = "g < a + k"; e0.sync = "c!"; e0.assign = "h = g + 1, z = 0";
        MEdge e1; e1.src = 1; e1.dst = 2; e1.guard = "h > 1"; e1.assign = "g = 0";
        t.edges = {e0, e1};
        MTemplate u; u.name = "U"; u.locs = {MLoc{"id10", "A"}, MLoc{"id11", "B", "x <= 9"}}; u.init = 1;
        MEdge f; f.src = 1; f.dst = 0; f.sync = "c?"; u.edges = {f};
        m.templs = {t, u};
        m.system = "P1 = T(1); system P1, U;";
        if (renamed) {
            auto rn = [&](std::string& x) { x = rename_word(x, IDS[id], FRESH[fr]); };
            rn(m.gdecl); rn(m.system);
            for (auto& tt : m.templs) { rn(tt.name); rn(tt.params); rn(tt.decls); for (auto& l : tt.locs) { rn(l.name); rn(l.inv); rn(l.rate); } for (auto& e : tt.edges) { rn(e.select); rn(e.guard); rn(e.sync); rn(e.assign); rn(e.prob); } }
        }
        return m;
    };
    auto obs = [&](MModel m) {
        Obs o; XmlDoc d = render_xml(m); Document doc; bool threw = false;
        try { parse_xml(d, &doc); if (!doc.has_errors()) { FeatureChecker fc(doc); doc.set_supported_methods(fc.get_supported_methods()); } } catch (std::exception& e) { threw = true; vf_note(e.what()); }
        o.ok = !threw && !doc.has_errors(); o.dump = dump_document(doc); o.diag = dump_diagnostics(doc); o.methods = dump_methods(doc);
        return o;
    };
    Obs base = obs(build(false));
    vf_assert(base.ok, "base-model-accepted");
    Obs o = obs(build(true));
    Obs want = base;
    want.dump = rename_word(base.dump, IDS[id], FRESH[fr]); want.diag = rename_word(base.diag, IDS[id], FRESH[fr]);
    compare(want, o, FRESH[fr]);
    vf_reach("end");
}

// queries: blanks and comments (also comments that span lines) between the tokens of one query; a line break outside a comment ends a query and is no such rewrite
extern "C" void harness_query_whitespace()  /* vf: bounds=10_queries_x_every_inter-token_space_x_7_fillers(spaces,tab,block_comment,block_comment_spanning_2_and_3_lines,star-run_comments) reach=end */
{
    static const char* QUERIES[] = {"A[] not deadlock", "E<> P1.Busy and cnt > 1", "A<> cnt == 3 imply flag", "P1.Idle --> P2.Busy", "E[] cnt < 3 or not flag", "sup: cnt , x", "Pr[<=10] (<> P1.Busy)",
                                    "simulate [<=10] { cnt , x }", "E<> forall (i : int[0,2]) buf[i] >= 0", "inf { P1.Busy } : x"};
    static const char* FILL[] = {"   ", "\t", " /* c */ ", " /* eventually\n twice */ ", " /* a\n b\n c */ ", " /** t **/ ", " /***/ "};
    int qi = vf_pick("!query", 10), f = vf_pick("!filler", 7), g = vf_pick("!gap", 12);
    std::string q = QUERIES[qi];
    std::vector<size_t> gaps;
    for (size_t i = 0; i < q.size(); i++) if (q[i] == ' ') gaps.push_back(i);
    vf_assume(g < (int)gaps.size());
    std::string r = q.substr(0, gaps[g]) + FILL[f] + q.substr(gaps[g] + 1);
    auto run = [&](const std::string& text) {
        Model m; Obs o;
        bool ok = m.load(strip(MODELS[0]));
        vf_assert(ok, "model-accepted");
        TigaPropertyBuilder pb(m.doc);
        size_t n0 = m.doc.get_errors().size();
        int rc = -2; bool threw = false;
        try { rc = parseProperty(text.c_str(), &pb, ""); } catch (std::exception& e) { threw = true; vf_note(e.what()); }
        o.ok = !threw && rc == 0 && m.doc.get_errors().size() == n0;
        o.diag = dump_diagnostics(m.doc); o.methods = std::to_string(pb.getProperties().size());
        for (auto& p : pb.getProperties()) { try { o.dump += p.intermediate.str() + "\n"; } catch (std::exception&) { o.dump += "<unprintable>\n"; } }
        return o;
    };
    Obs base = run(q);
    if (!base.ok) vf_note(base.diag.c_str());
    if (qi != 6 && qi != 7) vf_assert(base.ok, "query-accepted");   // the statistical queries are rejected for this model (a non-broadcast channel): a rejected query is compared all the same
    compare(base, run(r), r);
    vf_reach("end");
}
