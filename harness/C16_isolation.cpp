// C16: a fault in one text block does not disturb the rest of the document.
// Real code: XMLReader (reader model) feeding every label / declaration block to the grammar entry points, error productions of the grammar, the
// CALL macro's exception handling, Expression/Statement/DocumentBuilder stacks (fragments, typeFragments, frames), proc_edge_begin/end, TypeChecker.
// Symbolic: the faulted label (11 label sites in two templates: invariants, rate, guards, synchronisations, updates, probability), the fault
// (13 syntactic and semantic faults), for declaration blocks the faulted declaration and the kind of truncation / token deletion.
// Oracle: everything outside the faulted label equals the fault-free document; every diagnostic is attributed to the faulted label's element;
// declarations that textually precede a faulted declaration are present and unchanged.
#include "xmlmodel.h"

static MModel base_model()
{
    MModel m;
    m.gdecl = "int g; int h; clock x; clock y; chan c; broadcast chan bc; const int K = 2; int arr[3]; typedef int[0,2] id_t; urgent chan uc;";
    MTemplate t; t.name = "T"; t.decls = "clock z; int loc;";
    t.locs = {MLoc{"id0", "A", "z <= 5", "3"}, MLoc{"id1", "B", "x <= 7"}, MLoc{"id2", "C"}};
    t.bps = {"id5"}; t.init = 0;
    MEdge e0; e0.src = 0; e0.dst = 1; e0.select = "k : id_t"; e0.guard = "g < 3 && arr[k] >= 0"; e0.sync = "c!"; e0.assign = "h = g + 1, z = 0";
    MEdge e1; e1.src = 1; e1.dst_bp = true; e1.dst = 0; e1.guard = "h > 1"; e1.sync = "uc!"; e1.assign = "g = 0";   // urgent synchronisation: a clock guard here would draw a warning
    MEdge e2; e2.src_bp = true; e2.src = 0; e2.dst = 2; e2.prob = "2";
    MEdge e3; e3.src_bp = true; e3.src = 0; e3.dst = 0; e3.prob = "1"; e3.assign = "loc = 1";
    t.edges = {e0, e1, e2, e3};
    MTemplate u; u.name = "U";
    u.locs = {MLoc{"id10", "A"}, MLoc{"id11", "B", "y <= 9"}};
    u.init = 1;
    MEdge f; f.src = 1; f.dst = 0; f.guard = "y >= 1"; f.sync = "c?"; f.assign = "y = 0"; u.edges = {f};
    m.templs = {t, u};
    m.system = "system T, U;";
    return m;
}
// label sites: template, element kind ('L' location / 'E' edge), element index, label kind
struct Site { int templ; char elem; int idx; const char* kind; };
static const Site SITES[] = {{0, 'L', 0, "invariant"}, {0, 'L', 0, "exponentialrate"}, {0, 'L', 1, "invariant"}, {0, 'E', 0, "guard"}, {0, 'E', 0, "synchronisation"}, {0, 'E', 0, "assignment"},
                             {0, 'E', 1, "guard"}, {0, 'E', 1, "assignment"}, {0, 'E', 2, "probability"}, {1, 'E', 0, "guard"}, {1, 'L', 1, "invariant"}, {1, 'E', 0, "assignment"}, {0, 'E', 3, "assignment"}};
static const int NSITES = sizeof SITES / sizeof SITES[0];
static std::string* label_text(MModel& m, const Site& s)
{
    MTemplate& t = m.templs[s.templ];
    std::string k = s.kind;
    if (s.elem == 'L') return k == "invariant" ? &t.locs[s.idx].inv : &t.locs[s.idx].rate;
    MEdge& e = t.edges[s.idx];
    return k == "guard" ? &e.guard : k == "synchronisation" ? &e.sync : k == "assignment" ? &e.assign : &e.prob;
}
// XPath of the label element as the reader's Path computes it: sibling index per tag, 1-based
static std::string site_path(const MModel& m, const Site& s)
{
    const MTemplate& t = m.templs[s.templ];
    std::string p = "/nta/template[" + std::to_string(s.templ + 1) + "]/";
    int li = 0;
    if (s.elem == 'L') {
        p += "location[" + std::to_string(s.idx + 1) + "]/";
        const MLoc& l = t.locs[s.idx];
        if (!l.inv.empty()) { li++; if (std::string(s.kind) == "invariant") return p + "label[" + std::to_string(li) + "]"; }
        if (!l.rate.empty()) { li++; return p + "label[" + std::to_string(li) + "]"; }
    } else {
        p += "transition[" + std::to_string(s.idx + 1) + "]/";
        const MEdge& e = t.edges[s.idx];
        const std::string* order[] = {&e.select, &e.guard, &e.sync, &e.assign, &e.prob};
        const char* kinds[] = {"select", "guard", "synchronisation", "assignment", "probability"};
        for (int k = 0; k < 5; k++) if (!order[k]->empty()) { li++; if (std::string(kinds[k]) == s.kind) return p + "label[" + std::to_string(li) + "]"; }
    }
    return p + "?";
}
// blank out the faulted label in a document so that the rest can be compared
static void erase_site(Document& doc, const Site& s)
{
    int ti = 0;
    for (auto& t : doc.get_templates()) {
        if (ti++ != s.templ) continue;
        std::string k = s.kind;
        if (s.elem == 'L') { if ((size_t)s.idx < t.locations.size()) { if (k == "invariant") t.locations[s.idx].invariant = expression_t(); else t.locations[s.idx].exp_rate = expression_t(); t.locations[s.idx].cost_rate = expression_t(); } }
        else if ((size_t)s.idx < t.edges.size()) { auto& e = t.edges[s.idx]; if (k == "guard") e.guard = expression_t(); else if (k == "synchronisation") e.sync = expression_t(); else if (k == "assignment") e.assign = expression_t(); else e.prob = expression_t(); }
    }
}
struct Fault { const char* name; int mode; const char* text; };   // mode 0: replace the label text, 1: append to it, 2: prepend, 3: wrap ("before|after")
static const Fault FAULTS[] = {
    {"undeclared-identifier", 1, " + nope"}, {"dropped-operand", 1, " +"}, {"unbalanced-bracket", 1, " )"}, {"unbalanced-open-bracket", 2, "( "}, {"stray-token", 1, " ] h"},
    {"unterminated-comment", 1, " /* tail"}, {"type-error", 1, " + c"}, {"unknown-token", 1, " @"}, {"quantifier-over-clock", 2, "(forall (i : clock) i > 0) + "},
    {"call-of-non-function", 1, " + g(1)"}, {"bad-array-index", 1, " + arr[c]"}, {"empty-label", 0, " "}, {"double-operator", 1, " * / 2"}, {"side-effect", 1, " + (g = 1)"}, {"exists-dynamic-unknown", 2, "(exists (p : Nope)(true)) + "},
    {"sum-over-struct", 2, "(sum (i : chan) 1) + "}, {"overflowing-literal", 1, " + 20000000000"}, {"overflowing-literal-first", 2, "4294967296 + "},
    // the fault sits inside the body of a quantifier whose binder has the name of a variable other labels use: a scope left open would capture them
    {"broken-forall-body", 3, "forall (g : int[0,1]) |  >"}, {"broken-exists-body", 3, "exists (h : int[0,1]) (| +"}, {"broken-sum-body", 3, "1 + sum (g : id_t) | ) ]"},
    // type errors reported on nodes of further kinds (each node must carry the position of its own text)
    {"inline-if-over-a-channel", 2, "(c ? 1 : 2) + "}, {"inline-if-with-incompatible-branches", 1, " + (g > 0 ? x : c)"}, {"field-of-a-non-struct", 1, " + g.f"}, {"index-of-a-non-array", 1, " + h[1]"}};
static const int NFAULTS = sizeof FAULTS / sizeof FAULTS[0];
static void apply_fault(std::string& lt, const Fault& f)
{
    std::string t = f.text;
    if (f.mode == 0) lt = t; else if (f.mode == 1) lt += t; else if (f.mode == 2) lt = t + lt;
    else { size_t bar = t.find('|'); lt = t.substr(0, bar) + lt + t.substr(bar + 1); }
}

// full = false: reader + builders only (what the parse itself built); full = true: followed by TypeChecker / FeatureChecker as parse_XML_buffer(buf, doc) does
static std::string parse_and_dump(MModel& m, const Site* mask, Document& doc, bool& threw, bool full = false)
{
    XmlDoc d = render_xml(m);
    threw = false;
    try { if (full) parse_xml(d, &doc); else { DocumentBuilder b(doc); parse_xml(d, &b); } } catch (std::exception& e) { threw = true; vf_note(e.what()); }
    if (mask) erase_site(doc, *mask);
    DumpOpt o;
    return dump_document(doc, o);
}

extern "C" void harness_label_faults()  /* vf: bounds=13_label_sites_in_2_templates(invariant,rate,guard,synchronisation,update,probability)_x_25_faults(syntactic_and_semantic,incl._faults_inside_quantifier_bodies) reach=end */
{
    int si = vf_pick("!site", NSITES), fi = vf_pick("!fault", NFAULTS);
    const Site& s = SITES[si]; const Fault& f = FAULTS[fi];
    // fault-free reference with the same label blanked out
    MModel ref = base_model();
    Document rdoc; bool rthrew;
    std::string want = parse_and_dump(ref, &s, rdoc, rthrew);
    vf_assert(!rthrew && !rdoc.has_errors(), "fault-free-model-accepted");
    std::vector<std::string> ref_warnings;   // warnings the fault-free model draws anyway
    { Document full; bool t2; MModel r2 = base_model(); parse_and_dump(r2, nullptr, full, t2, true); vf_assert(!t2 && !full.has_errors(), "fault-free-model-accepted-by-type-checker");
      for (auto& w : full.get_warnings()) ref_warnings.push_back(w.msg + " @" + (w.start.path ? *w.start.path : std::string())); }
    // faulted model
    MModel m = base_model();
    std::string* lt = label_text(m, s);
    std::string sync_suffix;
    if (std::string(s.kind) == "synchronisation") { sync_suffix = lt->substr(lt->size() - 1); *lt = lt->substr(0, lt->size() - 1); }   // keep the ! / ? at the end
    apply_fault(*lt, f);
    *lt += sync_suffix;
    Document doc; bool threw;
    std::string got = parse_and_dump(m, &s, doc, threw);
    std::string path = site_path(ref, s);
    vf_note(f.name); vf_note(lt->c_str()); vf_note(path.c_str()); vf_notei("threw", threw); vf_notei("errors", (long)doc.get_errors().size());
    vf_reach("end");
    vf_assert(!threw, "faulted-label-does-not-abort-the-parse");
    if (got != want) { vf_note(want.c_str()); vf_note(got.c_str()); }
    vf_assert(got == want, "rest-of-document-unchanged");
    // the same faulted model through the whole pipeline (type checker included): where do the diagnostics point?
    Document fdoc; bool fthrew;
    parse_and_dump(m, nullptr, fdoc, fthrew, true);
    vf_assert(!fthrew, "faulted-label-does-not-abort-static-analysis");
    note_errors(fdoc);
    bool all_here = true;
    for (auto& e : fdoc.get_errors()) { std::string p = e.start.path ? *e.start.path : std::string(); if (p != path) { all_here = false; vf_note(("diagnostic elsewhere: " + e.msg + " @" + p).c_str()); } }
    vf_assert(all_here, "every-diagnostic-attributed-to-the-faulted-label");
    bool warnings_here = true;   // a warning outside the faulted label is acceptable only if the fault-free model draws the same one
    for (auto& w : fdoc.get_warnings()) {
        std::string p = w.start.path ? *w.start.path : std::string();
        if (p == path) continue;
        std::string key = w.msg + " @" + p; bool known = false;
        for (auto& r : ref_warnings) if (r == key) known = true;
        if (!known) { warnings_here = false; vf_note(("warning elsewhere: " + key).c_str()); }
    }
    vf_assert(warnings_here, "no-new-warning-outside-the-faulted-label");
    bool must_report = std::string(f.name) != "empty-label";
    if (std::string(f.name) == "side-effect") { std::string k = s.kind; must_report = k == "guard" || k == "invariant" || k == "synchronisation" || k == "probability"; }   // an update may write; C11 lists the side-effect-free contexts
    if (must_report) vf_assert(fdoc.has_errors(), "fault-reported");
    assert_invariants(doc, !threw);
    assert_invariants(fdoc, !fthrew, "document-structural-invariants-after-static-analysis");
}

// declaration blocks: every declaration that precedes the faulted one is present and unchanged
extern "C" void harness_declaration_faults()  /* vf: bounds=global_or_template-local_declaration_block_of_5_declarations(variable,array,typedef,function,constant);faulted_declaration_index_0..4;7_kinds_of_truncation/token_deletion reach=end */
{
    static const char* DECLS[] = {"int v0 = 1;", "int v1[3] = {1, 2, 3};", "typedef int[0,3] t2;", "int f3(int p) { int q = p; return q + v0; }", "const int v4 = 7;"};
    static const char* BROKEN[][7] = {
        {"int v0 = ;", "int v0 = 1", "int = 1;", "int v0 = 1 +;", "int v0 = (1;", "int v0 v0 = 1;", "int v0 = 1; /* open"},
        {"int v1[3] = {1, 2, ;", "int v1[3 = {1, 2, 3};", "int v1[] = {1, 2, 3};", "int v1[3] = {1 2 3};", "int v1[3] = 1, 2, 3};", "int [3] v1;", "int v1[3] = {1, 2, 3}"},
        {"typedef int[0,3 t2;", "typedef int[0,3];", "typedef t2;", "typedef int[0,] t2;", "typedef int[0,3] t2", "typedef int[0 3] t2;", "typedef int[0,3] int;"},
        {"int f3(int p) { int q = p; return q + v0; ", "int f3(int p { return p; }", "int f3(int p) { return p + ; }", "int f3(int p) { int q = ; return q; }", "int f3(int) { return 1; }", "int f3(int p) { return p }", "int f3(int p) { if (p { return 1; } return 2; }"},
        {"const int v4 = ;", "const int v4 7;", "const v4 = 7;", "const int v4 = 7 +;", "const int = 7;", "const int v4 = (7;", "const int v4 = 7 8;"}};
    int local = vf_pick("!template_local", 2), idx = vf_pick("!declaration", 5), br = vf_pick("!breakage", 7);
    auto mk = [&](bool broken) {
        MModel m = base_model();
        std::string d;
        for (int k = 0; k < 5; k++) d += std::string(k ? " " : "") + ((broken && k == idx) ? BROKEN[idx][br] : DECLS[k]);
        if (local) m.templs[0].decls += " " + d; else m.gdecl += " " + d;
        return m; };
    MModel ref = mk(false), bad = mk(true);
    Document rdoc, doc; bool rthrew, threw;
    parse_and_dump(ref, nullptr, rdoc, rthrew);
    vf_assert(!rthrew && !rdoc.has_errors(), "fault-free-model-accepted");
    parse_and_dump(bad, nullptr, doc, threw);
    vf_note(BROKEN[idx][br]); vf_notei("threw", threw);
    note_errors(doc);
    vf_reach("end");
    vf_assert(!threw, "faulted-declaration-does-not-abort-the-parse");
    vf_assert(doc.has_errors(), "fault-reported");
    // declarations 0..idx-1 present and unchanged
    auto decls_of = [&](Document& d) -> declarations_t& { if (local) return d.get_templates().front(); return d.get_globals(); };
    std::string rd, bd; DumpOpt o;
    dump_decls(rd, decls_of(rdoc), "", o); dump_decls(bd, decls_of(doc), "", o);
    static const char* NAMES[] = {"var v0 ", "var v1 ", "typedef t2 ", "fun f3 ", "var v4 "};
    bool ok = true;
    for (int k = 0; k < idx; k++) {
        // the lines of declaration k (a function takes its header, locals and body lines)
        auto lines = [&](const std::string& dump) { std::string r; size_t p = 0; bool in = false; while (p < dump.size()) { size_t q = dump.find('\n', p); std::string l = dump.substr(p, q - p); p = q + 1; if (l.compare(0, strlen(NAMES[k]), NAMES[k]) == 0) in = true; else if (l.compare(0, 2, "  ") != 0) in = false; if (in) r += l + "\n"; } return r; };
        std::string a = lines(rd), b = lines(bd);
        if (a.empty() || a != b) { ok = false; vf_note(("declaration lost or changed: " + std::string(NAMES[k]) + "\nwant: " + a + "got: " + b).c_str()); }
    }
    vf_assert(ok, "preceding-declarations-present-and-unchanged");
    // observation (not asserted): is the other template as in the reference?
    std::string ro, bo;
    { size_t ti = 0; for (auto& t : rdoc.get_templates()) { if (ti++ == 1) dump_template(ro, t, o); } ti = 0; for (auto& t : doc.get_templates()) { if (ti++ == 1) dump_template(bo, t, o); } }
    if (ro != bo) { vf_note(ro.c_str()); vf_note(bo.c_str()); std::string all; dump_template(all, doc.get_templates().front(), o); vf_note(all.c_str()); }
    vf_notei("other_template_unchanged", ro == bo);   // observation only: the property promises nothing beyond the preceding declarations for declaration faults
    bool paths_ok = true;
    std::string want_path = local ? "/nta/template[1]/declaration" : "/nta/declaration";
    for (auto& e : doc.get_errors()) { std::string p = e.start.path ? *e.start.path : std::string(); if (p != want_path) { vf_note(("diagnostic elsewhere: " + e.msg + " @" + p).c_str()); paths_ok = false; } }
    vf_notei("all_diagnostics_in_block", paths_ok);
    assert_invariants(doc, !threw);
}

// the same label faults in the textual .xta format: the grammar's own error productions (StateDecl, Guard, Sync, Assign, ...) must contain the fault
extern "C" void harness_label_faults_xta()  /* vf: bounds=13_label_sites_x_10_faults(semantic_faults_and_over-long_literals)_in_the_whole-file_XTA_rendering;rest_of_the_document_equals_the_fault-free_parse(reader/builder_level);C08_invariants reach=end */
{
    int si = vf_pick("!site", NSITES), fi = vf_pick("!fault", NFAULTS);
    const Site& s = SITES[si]; const Fault& f = FAULTS[fi];
    // In a single text the unit a syntax error is confined to is whatever the grammar's error productions resynchronise on, not the label
    // (an open bracket or comment legitimately swallows what follows). The textual format is therefore exercised with faults that are
    // lexically and syntactically well-formed (semantic faults) plus over-long integer literals (a lexical fault inside one token).
    {
        std::string n = f.name;
        vf_assume(n == "undeclared-identifier" || n == "type-error" || n == "quantifier-over-clock" || n == "call-of-non-function" || n == "bad-array-index" || n == "side-effect" ||
                  n == "exists-dynamic-unknown" || n == "sum-over-struct" || n == "overflowing-literal" || n == "overflowing-literal-first");
    }
    auto run = [&](MModel& m, Document& doc, bool& threw) {
        std::string text = render_xta(m);
        threw = false;
        try { DocumentBuilder b(doc); parse_XTA(text.c_str(), &b, true); } catch (std::exception& e) { threw = true; vf_note(e.what()); }
        erase_site(doc, s);
        if (s.elem == 'L') { Site inv = s, rate = s; inv.kind = "invariant"; rate.kind = "exponentialrate"; erase_site(doc, inv); erase_site(doc, rate); }   // "{ invariant ; rate }" is one unit of the textual syntax
        return dump_document(doc);
    };
    MModel ref = base_model();
    Document rdoc; bool rthrew;
    std::string want = run(ref, rdoc, rthrew);
    vf_assert(!rthrew && !rdoc.has_errors(), "fault-free-model-accepted");
    MModel m = base_model();
    std::string* lt = label_text(m, s);
    std::string sync_suffix;
    if (std::string(s.kind) == "synchronisation") { sync_suffix = lt->substr(lt->size() - 1); *lt = lt->substr(0, lt->size() - 1); }
    apply_fault(*lt, f);
    *lt += sync_suffix;
    Document doc; bool threw;
    std::string got = run(m, doc, threw);
    vf_note(f.name); vf_note(lt->c_str()); vf_notei("threw", threw); vf_notei("errors", (long)doc.get_errors().size());
    note_errors(doc);
    vf_reach("end");
    vf_assert(!threw, "faulted-label-does-not-abort-the-parse");
    if (got != want) { vf_note(want.c_str()); vf_note(got.c_str()); }
    vf_assert(got == want, "rest-of-document-unchanged");
    assert_invariants(doc, !threw);
}
