// C10: only convex clock constraints are accepted as guards and invariants.
// Real code: lexer, grammar (whole-file XTA entry), DocumentBuilder, TypeChecker::visitEdge/visitLocation/checkExpression (AND, OR, NOT, XOR,
// EQ, NEQ, LT.., FORALL, EXISTS clauses), type_t::is_guard/is_invariant/is_constraint lattice, RateDecomposer.
// Symbolic: the formula tree (root connective, child connectives, leaves), its placement (guard / invariant).
// Oracle: convex(f), written from the property statement; never consults the implementation.
#include "xmlmodel.h"

// ---- formula trees
enum Op { LEAF, AND_, OR_, NOT_, IMPLY_, XOR_, EQ_, NEQ_, FORALL_, EXISTS_ };
static const char* OPNAME[] = {"leaf", "&&", "||", "!", "imply", "xor", "==", "!=", "forall", "exists"};
static const Op BIN[] = {AND_, OR_, IMPLY_, XOR_, EQ_, NEQ_};
static const Op UN[] = {NOT_, FORALL_, EXISTS_};
struct Leaf { const char* text; bool clock; bool nonconvex = false; };
static const Leaf LEAVES[] = {{"i < 1", false}, {"x < 5", true}, {"2 <= x - y", true}, {"x - y < 3", true}, {"b", false}, {"x >= 2", true}, {"true", false}, {"3 > x", true}, {"i + 1 < y - x", true}, {"x != y", true, true}, {"3 != x", true, true}};
static int NLEAF = 3;

struct F { Op op; int leaf; const F* a; const F* b; };
static std::string render(const F* f)
{
    switch (f->op) {
    case LEAF: return std::string("(") + LEAVES[f->leaf].text + ")";
    case NOT_: return "(!" + render(f->a) + ")";
    case FORALL_: return "(forall (k : int[0,1]) " + render(f->a) + ")";
    case EXISTS_: return "(exists (k : int[0,1]) " + render(f->a) + ")";
    default: return "(" + render(f->a) + " " + OPNAME[f->op] + " " + render(f->b) + ")";
    }
}
static bool has_clock(const F* f)
{
    if (f->op == LEAF) return LEAVES[f->leaf].clock;
    return has_clock(f->a) || (f->b && has_clock(f->b));
}
// the property's acceptance condition: clock comparisons only under conjunction, universal quantification,
// or disjunction with a clock-free operand
static bool convex(const F* f)
{
    switch (f->op) {
    case LEAF: return !LEAVES[f->leaf].nonconvex;   // an inequality atom is itself the disjunction of < and >
    case AND_: return convex(f->a) && convex(f->b);
    case FORALL_: return convex(f->a);
    case OR_:
        if (has_clock(f->a) && has_clock(f->b)) return false;
        return convex(f->a) && convex(f->b);
    case IMPLY_:  // a imply b == !a || b
        if (has_clock(f->a)) return false;
        return convex(f->a) && convex(f->b);
    case NOT_: case EXISTS_: return !has_clock(f->a) && convex(f->a);
    case XOR_: case EQ_: case NEQ_:
        if (has_clock(f->a) || has_clock(f->b)) return false;
        return convex(f->a) && convex(f->b);
    }
    return false;
}
static bool pure_conjunction(const F* f)
{
    if (f->op == LEAF) return !LEAVES[f->leaf].nonconvex;
    return f->op == AND_ && pure_conjunction(f->a) && pure_conjunction(f->b);
}

// symbolic choice of a formula of depth <= d; nodes are allocated from a small arena
static F arena[16]; static int narena;
static const F* choose(int depth, const char* tag)
{
    F* f = &arena[narena++];
    std::string t(tag);
    int shape = depth == 0 ? 0 : vf_pick(("!shape" + t).c_str(), 3);  // 0 leaf, 1 unary, 2 binary
    f->a = f->b = nullptr; f->leaf = 0;
    if (shape == 0) { f->op = LEAF; f->leaf = vf_pick(("!leaf" + t).c_str(), NLEAF); }
    else if (shape == 1) { f->op = UN[vf_pick(("!un" + t).c_str(), 3)]; f->a = choose(depth - 1, (t + "a").c_str()); }
    else { f->op = BIN[vf_pick(("!bin" + t).c_str(), 6)]; f->a = choose(depth - 1, (t + "a").c_str()); f->b = choose(depth - 1, (t + "b").c_str()); }
    return f;
}


static void run(int depth, bool both_deep, int nleaf)
{
    NLEAF = nleaf;
    Model m;                                   // shared prefix: built-in declarations
    int place = vf_pick("!place", 2);          // 0 guard, 1 invariant
    narena = 0;
    const F* f;
    if (both_deep) f = choose(depth, "");
    else {
        // root over (formula of depth-1, leaf) in a symbolic order; unary roots over a formula of depth-1
        F* r = &arena[narena++];
        int shape = vf_pick("!shape", 3);
        r->leaf = 0; r->a = r->b = nullptr;
        if (shape == 0) { r->op = LEAF; r->leaf = vf_pick("!leaf", NLEAF); }
        else if (shape == 1) { r->op = UN[vf_pick("!un", 3)]; r->a = choose(depth - 1, "a"); }
        else {
            r->op = BIN[vf_pick("!bin", 6)];
            int deep_left = vf_pick("!deep_left", 2);
            const F* d = choose(depth - 1, "d"); const F* l = choose(0, "l");
            r->a = deep_left ? d : l; r->b = deep_left ? l : d;
        }
        f = r;
    }
    std::string text = render(f);
    std::string xta = "clock x, y; int i; bool b;\nprocess P() {\n state A";
    if (place == 1) xta += " { " + text + " }";
    xta += ", B;\n init A;\n trans A -> B {";
    if (place == 0) xta += " guard " + text + ";";
    xta += " };\n}\nsystem P;\n";
    bool accepted = m.load(xta);
    vf_note(text.c_str()); vf_notei("accepted", accepted); vf_notei("convex", convex(f));
    if (accepted) {
        auto& t = m.doc.get_templates().front();
        vf_assert(t.edges.size() == 1 && t.locations.size() == 2, "model-built");
        vf_assert(place == 0 ? !t.edges.front().guard.empty() : !t.locations.front().invariant.empty(), "formula-attached");
    }
    vf_assert(!accepted || convex(f), "accepted-implies-convex");
    vf_assert(!pure_conjunction(f) || accepted, "conjunction-of-atoms-accepted");
    vf_reach("end");
}

extern "C" void harness_convex_d2()  /* vf: tier=quick bounds=formula_depth<=2:root_over_(depth<=1_subformula,leaf)_either_order_or_unary_root;3_leaves(int_pred,clock_bound,clock_diff_bound_written_with_the_bound_on_the_left);9_connectives;guard_and_invariant */
{
    run(2, false, 3);
}

extern "C" void harness_convex_d2_wide()  /* vf: tier=thorough bounds=formula_depth<=2:root_over_(depth<=1_subformula,leaf)_either_order_or_unary_root;11_leaves(int_pred,clock_bound,clock_diff_bound_with_the_bound_on_either_side,bool,lower_clock_bound,true,clock!=clock,int!=clock);9_connectives;guard_and_invariant time_limit=3300 */
{
    run(2, false, 11);
}

extern "C" void harness_convex_d2_full()  /* vf: tier=thorough bounds=all_formula_trees_of_depth<=2;3_leaves;9_connectives;guard_and_invariant time_limit=3300 */
{
    run(2, true, 3);
}

// atomic clock comparisons of every spelling against every kind of context:
//  - an inequality between clocks (or a clock / clock difference and an integer) is the disjunction of < and >: rejected wherever it stands;
//  - a convex atom (bound, difference bound, equality between clocks or with an integer) is rejected under every connective that does not
//    preserve convexity, and accepted (as a guard) under those that do.
extern "C" void harness_atoms()  /* vf: tier=quick bounds=8_inequality_atoms+8_convex_clock_atoms(bounds,difference_bounds,clock==clock,clock==int,either_order)_x_7_convexity-preserving_and_8_convexity-breaking_contexts_x_guard/invariant_x_3_input_routes(textual,XML,XML_with_a_further_label_on_the_location) reach=end */
{
    static const char* ATOMS[] = {"x != y", "y != x", "x != 3", "3 != x", "x - y != 2", "2 != x - y", "x != i", "x - y != i",
                                  "x == y", "y == x", "x == 3", "3 == x", "x - y == 2", "x < 5", "x - y < 3", "2 <= x - y"};
    Model m;
    int atom = vf_pick("!atom", 16), ctx = vf_pick("!context", 15), place = vf_pick("!place", 2);
    // the way the formula reaches the type checker: textual format; XML; XML with a further label (a rate) after the invariant of the same location
    int format = vf_pick("!format", 3);
    bool nonconvex = atom < 8, equality = atom >= 8 && atom <= 12;
    std::string a = std::string("(") + ATOMS[atom] + ")", text;
    bool preserving = ctx < 7;
    switch (ctx) {
    case 0: text = a; break;
    case 1: text = a + " && (i < 1)"; break;
    case 2: text = "(i < 1) && " + a; break;
    case 3: text = a + " && (x < 5)"; break;
    case 4: text = "(forall (k : int[0,1]) " + a + ")"; break;
    case 5: text = "b || " + a; break;
    case 6: text = "(x < 5) && (" + a + " && (y < 3))"; break;
    // contexts that do not preserve convexity
    case 7: text = a + " || (y < 3)"; break;
    case 8: text = "!" + a; break;
    case 9: text = a + " imply b"; break;
    case 10: text = "(exists (k : int[0,1]) (" + a + " && i == k))"; break;
    case 11: text = a + " != b"; break;
    case 12: text = "b == " + a; break;
    case 13: text = a + " xor b"; break;
    default: text = "(x < 5) && (" + a + " || " + a + ")"; break;
    }
    std::string xta = "clock x, y; int i; bool b;\nprocess P() {\n state A";
    if (place == 1) xta += " { " + text + " }";
    xta += ", B;\n init A;\n trans A -> B {";
    if (place == 0) xta += " guard " + text + ";";
    xta += " };\n}\nsystem P;\n";
    bool accepted;
    if (format == 0) accepted = m.load(xta);
    else {
        MModel mm; mm.gdecl = "clock x, y; int i; bool b;"; mm.system = "system P;";
        MTemplate t; t.name = "P"; t.locs = {MLoc{"id0", "A"}, MLoc{"id1", "B"}};
        if (place == 1) t.locs[0].inv = text;
        if (format == 2) t.locs[0].rate = "2";
        MEdge e; e.src = 0; e.dst = 1; if (place == 0) e.guard = text;
        t.edges = {e}; mm.templs = {t};
        XmlDoc d = render_xml(mm);
        Document doc; bool threw = false;
        try { parse_xml(d, &doc); } catch (std::exception& ex) { threw = true; vf_note(ex.what()); }
        accepted = !threw && !doc.has_errors();
        if (!accepted) note_errors(doc);
    }
    vf_note(text.c_str()); vf_notei("accepted", accepted);
    if (nonconvex) vf_assert(!accepted, "nonconvex-atom-rejected");
    else if (!preserving) vf_assert(!accepted, "clock-atom-under-a-non-convex-connective-rejected");
    else if (place == 0 && ctx != 5) vf_assert(accepted, "convex-atom-in-a-convexity-preserving-guard-accepted");
    (void)equality;
    vf_reach("end");
}
