// C19: expression cloning, substitution and equality obey their algebraic laws.
// Real code: expression_t::clone / clone_deeper / subst / equal / get_size / get / operator[] / get_symbol / str and the factories, on trees
// produced by the real lexer, grammar and Expression/StatementBuilder from a pool of expressions and queries covering every operator family
// (incl. n-ary FUN_CALL / LIST / SIMULATE / quantifiers). Symbolic: which expression, which node is perturbed, the kind of perturbation,
// the replacement constant (a 32-bit symbolic value decided by the solver), which symbol is substituted.
#include "docdump.h"

static const char* DECLS =
    "int i; int j; int a[3]; bool b; clock x; clock y; double d; struct { int f; int g; } r; chan c; const int K = 2;\n"
    "int fn(int p, int q) { return p + q; }\n int g0() { return 1; }\n";
static const char* EXPRS[] = {
    "i + j * 2", "i - j - 1", "-i + (-j)", "!b && (i < j || b)", "i++ + --j", "i = j = 3", "i += j << 1", "a[i] * a[a[0]]", "r.f + r.g * r.f", "b ? i : j + 1",
    "fn(i, j) + g0()", "fn(fn(1, 2), a[1])", "forall (k : int[0,2]) a[k] > i", "exists (k : int[0,2]) a[k] == k && b", "sum (k : int[0,2]) a[k] * k", "i <? j >? 3",
    "(i & 3) | (j ^ 1)", "i % 3 == 0 imply b", "x < 5 && x - y <= 3", "d * 2.5 + 0.5 - d", "i == j != b", "(b ? a[0] : a[1]) + i / 2", "i >= 0 and not b or i > 7", "i = (b ? 1 : 2)"};
static const int NEXPR = sizeof EXPRS / sizeof EXPRS[0];
static const char* QUERIES[] = {
    "A[] i < 3 && !b", "E<> a[0] == j", "i < 1 --> j > 2", "simulate [<=10] {i, j, a[0] + 1}", "Pr[<=10] (<> b && i > 2)", "E[<=10; 100] (max: i + j)", "Pr[<=10](<> b) >= 0.5",
    "sup: i, j", "inf{b}: x", "A[] forall (k : int[0,2]) a[k] < 5", "simulate [x<=10; 5] {i} : 2 : b", "Pr[#<=20]([] i < 3) >= Pr[<=5](<> b)", "E<> fn(i, 2) > j",
    "control: A<> b && i > 1", "control_t*(i + 2): A<> b", "control_t*(2, 1): A[] !b", "control_t*: A<> b", "E<> control: A<> b", "{i, j} control: A[ b U i > 2 ]", "control: A[ b W i > 2 ]",
    "minE(i)[<=10] {i} -> {d} : <> b", "maxPr[#<=10] : <> b", "Pr[<=10] (b U i > 2)", "E[<=10; 50] (min: i * j)", "inf: i", "bounds{b}: i, j", "A<> b imply i > 0"};
static const int NQUERY = sizeof QUERIES / sizeof QUERIES[0];

struct QB : StatementBuilder {
    expression_t query;
    explicit QB(Document& d): StatementBuilder{d} {}
    void property() override { if (fragments.size()) { query = fragments[0]; fragments.pop(); } }
    void strategy_declaration(const char*) override {}
    variable_t* addVariable(type_t, const std::string&, expression_t, position_t) override { throw NotSupportedException("addVariable"); }
    bool addFunction(type_t, const std::string&, position_t) override { throw NotSupportedException("addFunction"); }
};

static bool is_binop(kind_t k)
{
    switch (k) { case PLUS: case MINUS: case MULT: case DIV: case MOD: case BIT_AND: case BIT_OR: case BIT_XOR: case BIT_LSHIFT: case BIT_RSHIFT: case AND: case OR: case LT: case LE: case EQ: case NEQ: case GE: case GT: case MIN: case MAX: return true; default: return false; }
}
static void walk(const expression_t& e, std::vector<expression_t>& out)
{
    out.push_back(e);
    for (size_t k = 0; k < e.get_size(); k++) walk(e.get(k), out);
}
// copy of e in which the node at preorder index `at` is replaced by f(node); everything on the way is shallow-cloned, the rest shared
static expression_t replace_at(const expression_t& e, int& idx, int at, const std::function<expression_t(const expression_t&)>& f)
{
    int me = idx++;
    if (me == at) { std::vector<expression_t> skip; walk(e, skip); idx = me + (int)skip.size(); return f(e); }
    if (e.get_size() == 0) return e;
    expression_t c = e.clone();
    for (size_t k = 0; k < e.get_size(); k++) c[k] = replace_at(e.get(k), idx, at, f);
    return c;
}
static expression_t pick_expression(Ctx& cx, QB*& qb)
{
    int q = vf_pick("is_query", 2);
    expression_t e;
    if (!q) { e = cx.expr(EXPRS[vf_pick("expr", NEXPR)]); }
    else { qb = new QB(cx.doc); parseProperty(QUERIES[vf_pick("query", NQUERY)], qb, ""); e = qb->query; }
    return e;
}

extern "C" void harness_clone()  /* vf: bounds=24_expressions+27_queries(all_operator_families,n-ary_nodes);deep_clone_equal,node-disjoint,mutation_isolated;child_count_law */
{
    Ctx cx; QB* qb = nullptr;
    vf_assert(cx.declare(DECLS) == 0, "declarations-accepted");
    expression_t e = pick_expression(cx, qb);
    vf_assert(!e.empty() && cx.nerr() == 0, "pool-expression-parses");
    std::string text = e.str();
    vf_note(text.c_str());
    expression_t c = e.clone_deeper();
    vf_assert(c.equal(e) && e.equal(c), "deep-clone-equal");
    vf_assert(c.str() == text, "deep-clone-same-text");
    std::vector<expression_t> ne, nc;
    walk(e, ne); walk(c, nc);
    vf_assert(ne.size() == nc.size(), "deep-clone-same-node-count");
    bool shared = false;
    for (auto& p : ne) for (auto& q : nc) if (p.data.get() == q.data.get()) shared = true;
    vf_assert(!shared, "deep-clone-shares-no-node");
    // the number of children reported always equals the number stored / accessible
    bool sizes = true;
    for (auto& n : ne) { if (n.get_size() != n.verif_stored_children()) sizes = false; for (size_t k = 0; k < n.get_size(); k++) (void)n.get(k).get_kind(); }
    vf_assert(sizes, "get_size-equals-stored-children");
    // mutation of the clone (replace a symbolic node by a constant, in place) is invisible on the original, and vice versa
    if (ne.size() > 1) {
        int at = vf_range("node", 1, (int)ne.size() - 1);
        int k = (int)vf_concretize(at);
        // find parent of node k in the clone and overwrite that child slot in place
        for (auto& n : nc) for (size_t s = 0; s < n.get_size(); s++) if (n.get(s).data.get() == nc[k].data.get()) { n[s] = expression_t::create_constant(vf_int("value")); goto done; }
    done:
        vf_assert(e.str() == text, "mutating-clone-leaves-original-text");
        expression_t c2 = e.clone_deeper();
        std::vector<expression_t> n2; walk(c2, n2);
        vf_assert(n2.size() == ne.size() && c2.equal(e), "mutating-clone-leaves-original-structure");
        for (auto& n : ne) for (size_t s = 0; s < n.get_size(); s++) if (n.get(s).data.get() == ne[k].data.get()) { n[s] = expression_t::create_constant(7); goto done2; }
    done2:
        vf_assert(c2.str() == text, "mutating-original-leaves-clone-text");
    }
    vf_reach("end");
}

extern "C" void harness_equality()  /* vf: bounds=single-node_perturbations_at_every_node:constant_value(symbolic_32-bit),floating_constant(symbolic_64-bit_double),int_vs_double_constant,kind_change,operand_swap,symbol_change;reflexive,symmetric,transitive,equal_implies_same_text */
{
    Ctx cx; QB* qb = nullptr;
    vf_assert(cx.declare(DECLS) == 0, "declarations-accepted");
    expression_t e = pick_expression(cx, qb);
    vf_assert(!e.empty() && cx.nerr() == 0, "pool-expression-parses");
    vf_assert(e.equal(e), "reflexive");
    expression_t c1 = e.clone_deeper(), c2 = c1.clone_deeper();
    vf_assert(e.equal(c1) && c1.equal(c2) && e.equal(c2) && c2.equal(e), "transitive-symmetric-on-clones");
    std::vector<expression_t> ne; walk(e, ne);
    int at = vf_range("node", 0, (int)ne.size() - 1), pert = vf_pick("perturbation", 6);
    const expression_t& n = ne[at];
    int idx = 0; expression_t p; bool differs = true;
    symbol_t other; cx.b.frames.top().resolve("j", other);
    symbol_t other2; cx.b.frames.top().resolve("i", other2);
    switch (pert) {
    case 0: {  // constant value: any 32-bit value; equal iff the value is the original one (the solver decides both directions)
        vf_assume(n.get_kind() == CONSTANT && n.get_type().is_integral());
        int v = vf_int("value");
        p = replace_at(e, idx, at, [&](const expression_t& o) { return expression_t::create_constant(v, o.get_position()); });
        bool eq = p.equal(e);
        vf_assert(eq == (v == n.get_value()), "constant-value-distinguished");
        vf_assert(eq == e.equal(p), "symmetric");
        vf_reach("end"); return; }
    case 5: {  // floating-point constant: any double; equal iff it is the same value (the solver decides both directions over all 2^64 bit patterns)
        vf_assume(n.get_kind() == CONSTANT && n.get_type().is(Constants::DOUBLE));
        double v = vf_double("dvalue"), orig = n.get_double_value();
        p = replace_at(e, idx, at, [&](const expression_t& o) { return expression_t::create_double(v, o.get_position()); });
        bool eq = p.equal(e);
        vf_assert(eq == (v == orig), "floating-constant-distinguished");
        vf_assert(eq == e.equal(p), "symmetric");
        vf_reach("end"); return; }
    case 1:  // constant type: int vs double of the same numeric value
        vf_assume(n.get_kind() == CONSTANT && n.get_type().is_integral());
        p = replace_at(e, idx, at, [&](const expression_t& o) { return expression_t::create_double((double)o.get_value(), o.get_position()); });
        break;
    case 2: {  // kind: a different kind with the same children
        vf_assume(is_binop(n.get_kind()) || n.get_kind() == UNARY_MINUS || n.get_kind() == NOT);   // keep the arity: an ill-formed tree is not a perturbation
        kind_t nk = n.get_kind() == UNARY_MINUS ? NOT : n.get_kind() == NOT ? UNARY_MINUS : n.get_kind() == PLUS ? MINUS : PLUS;
        p = replace_at(e, idx, at, [&](const expression_t& o) { std::vector<expression_t> sub; for (size_t k = 0; k < o.get_size(); k++) sub.push_back(o.get(k)); return expression_t::create_nary(nk, sub, o.get_position(), o.get_type()); });
        vf_assume(p.get_size() == e.get_size() || at != 0);
        break; }
    case 3:  // operand order: swap the first two children when they differ
        vf_assume((is_binop(n.get_kind()) && !n.get(0).equal(n.get(1))) || (n.get_kind() == FUN_CALL && n.get_size() == 3 && !n.get(1).equal(n.get(2))));
        p = replace_at(e, idx, at, [&](const expression_t& o) { expression_t s = o.clone(); int f = o.get_kind() == FUN_CALL ? 1 : 0; expression_t t = s[f]; s[f] = s[f + 1]; s[f + 1] = t; return s; });
        break;
    case 4:  // symbol: another variable
        vf_assume(n.get_kind() == IDENTIFIER);
        p = replace_at(e, idx, at, [&](const expression_t& o) { return expression_t::create_identifier(o.get_symbol() == other ? other2 : other, o.get_position()); });
        break;
    }
    // a perturbed tree may be one no parse produces (a double where the printer reads an integer operand): printing it may throw
    std::string ps; bool printable = true;
    try { ps = p.str(); } catch (std::exception&) { printable = false; }
    vf_note(e.str().c_str()); vf_note(printable ? ps.c_str() : "<perturbed tree not printable>");
    vf_assert(!p.equal(e) && !e.equal(p), "perturbation-distinguished");
    vf_assert(!(p.equal(e)) || (printable && ps == e.str()), "equal-implies-same-text");
    vf_reach("end");
}

extern "C" void harness_equal_pairs()  /* vf: bounds=all_ordered_pairs_of_the_pool:symmetry,equal_implies_same_text,distinct_pool_entries_are_unequal */
{
    Ctx cx; QB* qb = nullptr;
    vf_assert(cx.declare(DECLS) == 0, "declarations-accepted");
    int a = vf_pick("a", NEXPR), b = vf_pick("b", NEXPR);
    expression_t ea = cx.expr(EXPRS[a]), eb = cx.expr(EXPRS[b]);
    bool ab = ea.equal(eb), ba = eb.equal(ea);
    vf_assert(ab == ba, "symmetric");
    vf_assert(!ab || ea.str() == eb.str(), "equal-implies-same-text");
    // two parses of a quantified expression bind two distinct binder symbols, so they are legitimately different trees
    bool quantified = a >= 12 && a <= 14;
    if (a != b) vf_assert(!ab, "different-source-texts-unequal"); else if (!quantified) vf_assert(ab, "same-source-text-equal");
    // sub-expressions against each other as well
    std::vector<expression_t> na, nb; walk(ea, na); walk(eb, nb);
    bool sym = true, txt = true;
    for (auto& p : na) for (auto& q : nb) { bool e1 = p.equal(q), e2 = q.equal(p); if (e1 != e2) sym = false; if (e1 && p.str() != q.str()) txt = false; }
    vf_assert(sym, "symmetric-on-subexpressions");
    vf_assert(txt, "equal-implies-same-text-on-subexpressions");
    vf_reach("end");
}

static int count_ident(const expression_t& e, symbol_t s) { std::vector<expression_t> n; walk(e, n); int c = 0; for (auto& x : n) if (x.get_kind() == IDENTIFIER && x.get_symbol() == s) c++; return c; }
static int count_const(const expression_t& e, int v) { std::vector<expression_t> n; walk(e, n); int c = 0; for (auto& x : n) if (x.get_kind() == CONSTANT && x.get_type().is_integral() && x.get_value() == v) c++; return c; }

extern "C" void harness_subst()  /* vf: bounds=24_expressions+27_queries_x_7_symbols;self-substitution_identity;exactly_the_identifier_occurrences_replaced;original_unchanged;replacement_value_symbolic */
{
    Ctx cx; QB* qb = nullptr;
    vf_assert(cx.declare(DECLS) == 0, "declarations-accepted");
    expression_t e = pick_expression(cx, qb);
    vf_assert(!e.empty() && cx.nerr() == 0, "pool-expression-parses");
    static const char* SYMS[] = {"i", "j", "a", "b", "r", "x", "d"};
    symbol_t s; bool found = cx.b.frames.top().resolve(SYMS[vf_pick("symbol", 7)], s);
    vf_assert(found, "symbol-declared");
    std::string text = e.str();
    std::vector<expression_t> n0; walk(e, n0);
    int occ = count_ident(e, s);
    // identity
    expression_t id = e.subst(s, expression_t::create_identifier(s));
    vf_assert(id.equal(e) && id.str() == text, "self-substitution-is-identity");
    // replacement by a constant that does not occur in e
    expression_t r = e.subst(s, expression_t::create_constant(424242));
    std::vector<expression_t> n1; walk(r, n1);
    vf_assert(n1.size() == n0.size(), "substitution-keeps-node-count");
    vf_assert(count_ident(r, s) == 0, "no-occurrence-left");
    vf_assert(count_const(r, 424242) == occ, "exactly-the-identifier-occurrences-replaced");
    bool same_shape = true;
    for (size_t k = 0; k < n0.size() && k < n1.size(); k++) {
        bool was = n0[k].get_kind() == IDENTIFIER && n0[k].get_symbol() == s;
        if (!was && (n0[k].get_kind() != n1[k].get_kind() || n0[k].get_size() != n1[k].get_size())) same_shape = false;
    }
    vf_assert(same_shape, "other-nodes-untouched");
    vf_assert(e.str() == text && count_ident(e, s) == occ, "original-unchanged");
    vf_assert((occ == 0) == r.equal(e), "changed-iff-symbol-occurs");
    vf_reach("end");
}

// substitution inside types: the expressions a type carries (range bounds, array sizes, the same inside records, arrays of arrays, typedefs and
// prefixes) are substituted like any other expression - this is how a process member's type gets its template arguments
extern "C" void harness_type_subst()  /* vf: bounds=10_declared_types_with_expressions(range_bounds,array_sizes,nested_arrays,record_fields,typedef,const/meta_prefixes,scalar_set_size)_x_3_symbols;self-substitution_identity;original_unchanged reach=end */
{
    static const char* TDECLS =
        "const int lo = 1; const int hi = 5; const int n = 3;\n"
        "int[lo, hi] v0; int v1[n]; int[lo, lo + hi] v2[n][hi]; struct { int[0, hi] f; bool g[n]; } v3; typedef int[lo, hi] T_t; T_t v4; const int[lo, hi] v5 = 1; meta int[0, n * 2] v6;\n"
        "typedef scalar[n] S_t; S_t v7; int v8[T_t]; struct { T_t f[n]; } v9[hi];\n";
    Ctx cx;
    vf_assert(cx.declare(TDECLS) == 0, "declarations-accepted");
    int vi = vf_pick("!variable", 10), si = vf_pick("!symbol", 3);
    static const char* SYMS[] = {"lo", "hi", "n"};
    symbol_t s, v;
    bool ok = cx.b.frames.top().resolve(SYMS[si], s) && cx.b.frames.top().resolve("v" + std::to_string(vi), v);
    vf_assert(ok, "symbols-declared");
    type_t t = v.get_type();
    std::string text = t.str();
    vf_note(text.c_str());
    int val = 424242;   // a value that occurs nowhere in the declarations
    type_t r = t.subst(s, expression_t::create_constant(val));
    std::string got = r.str(), want = rename_word(text, SYMS[si], std::to_string(val));
    vf_note(got.c_str());
    vf_assert(got == want, "every-occurrence-in-the-type-replaced-and-nothing-else");
    vf_assert(t.str() == text, "original-type-unchanged");
    type_t id = t.subst(s, expression_t::create_identifier(s));
    vf_assert(id.str() == text, "self-substitution-is-identity");
    vf_reach("end");
}

// the other deep clones: with one symbol replaced by another (from, to), and re-resolved by name in a template frame plus an edge's select frame
extern "C" void harness_clone_variants()  /* vf: bounds=labels_of_3_edges(with_1_or_2_select_binders_at_depth_1..3,template_locals,parameters,globals)_x_clone_into_(template_frame,select_frame)_and_clone_with_each_of_6_symbols_replaced reach=end */
{
    Model m;
    bool ok = m.load("int g; int arr[4]; const int N = 4;\n"
                     "process P(const int id) {\n int loc; clock x;\n state A, B; init A;\n"
                     " trans A -> B { select i : int[0,3]; guard i == 2 && arr[i] >= loc + id; assign loc = arr[(i + 1) % N] + g, x = 0; },\n"
                     "  B -> A { select i : int[0,3], j : int[0,1]; guard arr[i] > j || (loc < id && j == 0); assign arr[j] = i; },\n"
                     "  A -> A { guard loc > g; assign loc = id; };\n}\nP1 = P(1);\nsystem P1;\n");
    vf_assert(ok, "model-accepted");
    template_t& t = m.doc.get_templates().front();
    int ei = vf_pick("!edge", 3), li = vf_pick("!label", 2), mode = vf_pick("!mode", 2);
    edge_t& ed = t.edges[ei];
    expression_t e = li ? ed.assign : ed.guard;
    std::string text = e.str();
    vf_note(text.c_str());
    std::vector<expression_t> ne; walk(e, ne);
    if (mode == 0) {
        expression_t c = e.clone_deeper(t.frame, ed.select);
        std::vector<expression_t> nc; walk(c, nc);
        vf_assert(nc.size() == ne.size(), "clone-into-frames-same-node-count");
        bool syms = true, shared = false;
        for (size_t k = 0; k < ne.size() && k < nc.size(); k++) { if (ne[k].get_kind() == IDENTIFIER && !(nc[k].get_kind() == IDENTIFIER && nc[k].get_symbol() == ne[k].get_symbol())) syms = false; if (ne[k].data.get() == nc[k].data.get()) shared = true; }
        vf_assert(syms, "clone-into-frames-resolves-every-identifier-to-the-same-symbol");
        vf_assert(c.equal(e) && e.equal(c) && c.str() == text, "clone-into-frames-equal");
        vf_assert(!shared, "clone-into-frames-shares-no-node");
    } else {
        static const char* FROM[] = {"g", "arr", "loc", "id", "i", "j"};
        int si = vf_pick("!symbol", 6);
        symbol_t from, to;
        bool f = (ed.select != frame_t() && ed.select.resolve(FROM[si], from)) || t.frame.resolve(FROM[si], from);
        bool g = t.frame.resolve("x", to);
        vf_assert(g, "replacement-symbol-declared");
        if (!f) { vf_reach("end"); return; }   // the symbol is not visible from this edge
        int occ = count_ident(e, from);
        expression_t c = e.clone_deeper(from, to);
        std::vector<expression_t> nc; walk(c, nc);
        vf_assert(nc.size() == ne.size(), "clone-with-replacement-same-node-count");
        vf_assert(count_ident(c, from) == 0 && count_ident(c, to) == occ + count_ident(e, to), "exactly-the-occurrences-of-the-symbol-replaced");
        vf_assert(e.str() == text && count_ident(e, from) == occ, "original-unchanged");
        vf_assert((occ == 0) == c.equal(e), "changed-iff-symbol-occurs");
        expression_t idc = e.clone_deeper(from, from);
        vf_assert(idc.equal(e) && idc.str() == text, "replacing-a-symbol-by-itself-is-the-identity");
    }
    vf_reach("end");
}
