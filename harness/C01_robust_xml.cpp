// C01 (family: XML reader): no structurally valid XML node stream crashes, corrupts memory or hangs parse_XML_buffer.
// Real code: all of XMLReader (project, templ, location, branchpoint, init, transition, label, parameter, declaration, instantiation, system, queries,
// query, formula, comment, option, expectation, result, model_options, Path), DocumentBuilder incl. the query / option / expectation callbacks, the
// grammar entry points of every block, TypeChecker and FeatureChecker when nothing was reported.
// Symbolic: one or two mutations of a valid node stream at symbolic positions: attribute removed / emptied / duplicated id, element removed with its
// subtree, element emptied, text removed / replaced by an awkward snippet, unknown or misplaced element inserted, stream ending early.
// Oracle: the call returns or throws something derived from std::exception; the engine checks every memory access, abort, non-std exception and the
// instruction budget (the path may not execute more than BUDGET instructions: "time out of proportion").
#include "xmlmodel.h"

static XmlDoc valid_doc()
{
    MModel m;
    m.gdecl = "int g; clock x; chan c;";
    MTemplate t; t.name = "T"; t.params = "const int a"; t.decls = "clock z;";
    t.locs = {MLoc{"id0", "A", "z <= 5", "2"}, MLoc{"id1", ""}, MLoc{"id2", "C"}};
    t.locs[2].committed = true; t.locs[1].urgent = true;
    t.bps = {"id5"}; t.init = 0;
    MEdge e0; e0.src = 0; e0.dst = 1; e0.select = "k : int[0,2]"; e0.guard = "g < a"; e0.sync = "c!"; e0.assign = "g = k"; e0.ctrl = 2;
    MEdge e1; e1.src = 1; e1.dst_bp = true; e1.dst = 0;
    MEdge e2; e2.src_bp = true; e2.src = 0; e2.dst = 2; e2.prob = "2";
    t.edges = {e0, e1, e2};
    m.templs = {t};
    m.system = "P1 = T(1); system P1;";
    XmlDoc d = render_xml(m);
    // the trailing </nta> is replaced by a queries section, then closed again
    d.nodes.pop_back(); d.open.push_back("nta");
    d.el("queries");
    d.empty("option", {{"key", "--diagnostic"}, {"value", "0"}});
    d.el("query");
    d.leaf("formula", "A[] g < 5");
    d.leaf("comment", "a comment");
    d.empty("option", {{"key", "--search-order"}, {"value", "1"}});
    d.el("expect", {{"outcome", "success"}, {"type", "probability"}, {"value", "0.5"}});
    d.empty("resource", {{"type", "time"}, {"value", "10"}, {"unit", "ms"}});
    d.end();
    d.empty("result", {{"outcome", "success"}, {"type", "quality"}, {"timestamp", "x"}});
    d.end();
    d.el("query"); d.leaf("formula", "E<> P1.C"); d.leaf("comment", ""); d.end();
    d.end();
    d.end();
    return d;
}
static const long BUDGET = 40 * 1000 * 1000;   // ~25x the instructions of the unmutated document

// index of the end node matching the element at i (or i itself for an empty element / text)
static size_t subtree_end(const XmlDoc& d, size_t i)
{
    if (d.nodes[i].type != 1 || d.nodes[i].empty) return i;
    int depth = 0;
    for (size_t k = i; k < d.nodes.size(); k++) { if (d.nodes[k].type == 1 && !d.nodes[k].empty) depth++; else if (d.nodes[k].type == 15 && --depth == 0) return k; }
    return d.nodes.size() - 1;
}
static const char* SNIPPETS[] = {"", " ", "nope +", "int int;", "x' == ", "/* open", "1 ? : 2", "\"str", "A[] ", "k : ", "system ;", "P1 = T(;", ")"};
static const int NSNIP = sizeof SNIPPETS / sizeof SNIPPETS[0];
enum { M_DROP_ATTR, M_EMPTY_ATTR, M_DUP_ID, M_DROP_ELEMENT, M_MAKE_EMPTY, M_DROP_TEXT, M_SNIPPET, M_INSERT_UNKNOWN, M_INSERT_MISPLACED, M_EOF, NMUT };
static const char* MUTNAME[] = {"drop-attribute", "empty-attribute", "duplicate-id", "drop-element", "make-element-empty", "drop-text", "replace-text-by-snippet", "insert-unknown-element", "insert-misplaced-element", "premature-end"};
static int eof_after = -1;
// applies the mutation if it is applicable at node `at`; returns false otherwise
static bool mutate(XmlDoc& d, int mut, size_t at, int aux)
{
    if (at >= d.nodes.size()) return false;
    VNode& n = d.nodes[at];
    switch (mut) {
    case M_DROP_ATTR: if (n.type != 1 || (size_t)aux >= n.attrs.size()) return false; n.attrs.erase(n.attrs.begin() + aux); return true;
    case M_EMPTY_ATTR: if (n.type != 1 || (size_t)aux >= n.attrs.size()) return false; n.attrs[aux].value = aux % 2 ? "  " : ""; return true;
    case M_DUP_ID: if (n.type != 1 || n.attrs.empty() || (strcmp(n.attrs[0].name, "id") && strcmp(n.attrs[0].name, "ref"))) return false; n.attrs[0].value = aux % 2 ? "id0" : "id5"; return true;
    case M_DROP_ELEMENT: { if (n.type != 1 || at == 0) return false; size_t e = subtree_end(d, at); d.nodes.erase(d.nodes.begin() + at, d.nodes.begin() + e + 1); return true; }
    case M_MAKE_EMPTY: { if (n.type != 1 || n.empty || at == 0) return false; size_t e = subtree_end(d, at); d.nodes.erase(d.nodes.begin() + at + 1, d.nodes.begin() + e + 1); d.nodes[at].empty = true; return true; }
    case M_DROP_TEXT: if (n.type != 3) return false; d.nodes.erase(d.nodes.begin() + at); return true;
    case M_SNIPPET: if (n.type != 3) return false; n.text = SNIPPETS[aux % NSNIP]; if (n.text.empty()) d.nodes.erase(d.nodes.begin() + at); return true;
    case M_INSERT_UNKNOWN: if (n.type == 3 || at == 0) return false; d.nodes.insert(d.nodes.begin() + at, {VNode{1, "frobnicate", false, {}, ""}, VNode{3, "#text", false, {}, "zz"}, VNode{15, "frobnicate", false, {}, ""}}); return true;
    case M_INSERT_MISPLACED: { if (n.type == 3 || at == 0) return false; static const char* TAGS[] = {"location", "transition", "label", "init", "name", "template", "system", "query", "option", "expect", "declaration", "source"};
        d.nodes.insert(d.nodes.begin() + at, VNode{1, TAGS[aux % 12], true, {}, ""}); return true; }
    case M_EOF: if (at == 0) return false; eof_after = (int)at; return true;
    }
    return false;
}
static void run(XmlDoc& d)
{
    Document doc;
    const char* outcome = "returned";
#ifndef VF_NATIVE
    vf_xml_eof_after = eof_after;
#else
    if (eof_after >= 0) d.nodes.resize(eof_after);   // native: the text simply stops (libxml2 reports the premature end)
#endif
    vf_budget(BUDGET);
    try { parse_xml(d, &doc); } catch (std::exception& e) { outcome = "std::exception"; }
    vf_budget(-1);
    vf_notei("errors", (long)doc.get_errors().size());
    vf_note(outcome);
    assert_invariants(doc, !strcmp(outcome, "returned"));
}

extern "C" void harness_xml_single()  /* vf: bounds=one_mutation_of_a_valid_node_stream(1_template,3_locations,branchpoint,3_edges,all_label_kinds,queries_section_with_options/expectation/resource/result):10_mutation_kinds_x_every_node_position_x_<=3_variants reach=end */
{
    XmlDoc d = valid_doc();
    int n = (int)d.nodes.size();
    int mut = vf_pick("!mutation", NMUT), at = vf_pick("!node", 120), aux = vf_pick("!variant", 3);
    vf_assume(at < n);
    eof_after = -1;
    if (mut == M_SNIPPET) aux = aux * 4 + at % 4;   // spread the snippets over the text nodes
    vf_assume(mutate(d, mut, (size_t)at, aux));
    vf_note(MUTNAME[mut]); vf_note(d.nodes.size() > (size_t)at ? d.nodes[at].name : "-");
    run(d);
    vf_reach("end");
}

extern "C" void harness_xml_double()  /* vf: tier=thorough bounds=two_mutations(attribute_dropped/emptied,element_dropped/emptied,text_dropped,premature_end)_at_every_pair_of_node_positions time_limit=3300 reach=end */
{
    XmlDoc d = valid_doc();
    int n = (int)d.nodes.size();
    static const int MUTS[] = {M_DROP_ATTR, M_EMPTY_ATTR, M_DROP_ELEMENT, M_MAKE_EMPTY, M_DROP_TEXT, M_EOF};
    int m1 = vf_pick("!mutation1", 6), a1 = vf_pick("!node1", 120), m2 = vf_pick("!mutation2", 6), a2 = vf_pick("!node2", 120);
    vf_assume(a1 < n && a2 < a1);
    eof_after = -1;
    vf_assume(mutate(d, MUTS[m1], (size_t)a1, 0));   // the later position first, so that the earlier index stays valid
    vf_assume(mutate(d, MUTS[m2], (size_t)a2, 0));
    run(d);
    vf_reach("end");
}
