// C12: no accepted model writes to a constant.
// Real code: lexer, grammar, builders (binders forced const in expr_forall_begin / iteration_begin / addSelectSymbolToFrame, parameter and
// declaration prefixes), type_t::is_constant/is_mutable/get_sub/create_prefix, TypeChecker::isModifiableLValue / isLValue / isUniqueReference /
// isParameterCompatible / checkParameterCompatible / visitInstance / checkAssignmentExpression.
// Symbolic: the constness source (which object is const and through which access path the write reaches it) and the write form.
// Oracle by construction: the write to the const object must be rejected; the same write to the mutable object of the same type must be accepted.
#include "common.h"

static const char* GLOBALS =
    "const int ci = 1; int mi; int mj;\n"
    "typedef struct { int f; int a[2]; } S;\n const S cs = {1, {1, 2}}; S ms; S ms2;\n"
    "const int ca[3] = {1, 2, 3}; int ma[3]; int mb[3];\n"
    "const S csa[2] = {{1, {1, 2}}, {1, {1, 2}}}; S msa[2];\n"
    "typedef const int CI; CI tci = 1;\n"
    "const struct { int f; } cas = {1}; struct { int f; } mas;\n"
    "typedef struct { const int lim[2]; int cur; } cfg_t; cfg_t cfg = {{1, 2}, 0}; typedef struct { int lim[2]; int cur; } mcfg_t; mcfg_t mcfg = {{1, 2}, 0};\n"
    "void f_int(int& p) { p = 1; }\n";

// int-typed l-values: {const, mutable twin}, reachable from an edge update and from a function body
static const char* GLV[][2] = {{"ci", "mi"}, {"ca[1]", "ma[1]"}, {"cs.f", "ms.f"}, {"cs.a[1]", "ms.a[1]"}, {"csa[1].f", "msa[1].f"}, {"csa[0].a[mi]", "msa[0].a[mi]"},
                               {"tci", "mi"}, {"cas.f", "mas.f"}, {"ca[mi]", "ma[mi]"}, {"cfg.lim[0]", "mcfg.lim[0]"}, {"cfg.lim[mi]", "mcfg.cur"}};
static const int NGLV = sizeof GLV / sizeof GLV[0];
// write forms over an int l-value L (M is an unrelated mutable int)
static const int NWF = 21;   // all twelve assignment operators, the four increments / decrements, inline-if targets, a comma list, a reference argument
static std::string wform(int w, const std::string& L, bool stmt = true)
{
    if (w == 13 && stmt) return "for (mj = 2, " + L + " = 1; mj > 5; mj = 3) { }";   // comma list as a for-initialiser inside a function body

    switch (w) {
    case 0: return L + " = 1";
    case 1: return L + " := 1";
    case 2: return L + " += 1";
    case 3: return L + " -= 1";
    case 4: return L + " *= 2";
    case 5: return L + " |= 1";
    case 6: return L + " <<= 1";
    case 7: return L + "++";
    case 8: return "++" + L;
    case 9: return L + "--";
    case 10: return "--" + L;
    case 11: return "(mj > 0 ? " + L + " : mj) = 1";   // const in the then-branch of an inline-if l-value
    case 12: return "(mj > 0 ? mj : " + L + ") = 1";   // const in the else-branch
    case 13: return "mj = 2, " + L + " = 1, mj = 3";    // inside a comma list (the grammar has no parenthesised comma expression, so a comma l-value cannot be written down)
    case 14: return "f_int(" + L + ")";                // bound to a non-const reference parameter of a function
    case 15: return "(mj > 0 ? mj : " + L + ")++";
    case 16: return L + " /= 1";
    case 17: return L + " %= 2";
    case 18: return L + " &= 1";
    case 19: return L + " ^= 1";
    case 20: return L + " >>= 1";
    }
    return "";
}

static std::string wrap(const std::string& decls, const std::string& update, const std::string& tparams = "", const std::string& sys = "P0 = P(); system P0;", const std::string& select = "", const std::string& local = "")
{
    return std::string(GLOBALS) + decls + "process P(" + tparams + ") {\n" + local + " state A, B;\n init A;\n trans A -> B { " + select + (update.empty() ? "" : " assign " + update + ";") + " };\n}\n" + sys + "\n";
}
static bool accepted(const std::string& xta) { Model m; bool ok = m.load(xta); if (!ok) note_errors(m.doc); return ok; }
static void verdicts(const std::string& cmodel, const std::string& mmodel)
{
    bool c = accepted(cmodel), m = accepted(mmodel);
    vf_note(cmodel.c_str() + strlen(GLOBALS)); vf_notei("const_write_accepted", c); vf_notei("mutable_write_accepted", m);
    vf_assert(!c, "write-to-constant-rejected");
    vf_assert(m, "same-write-to-mutable-accepted");
    vf_reach("end");
}

extern "C" void harness_global_const()  /* vf: bounds=11_access_paths(incl._a_const_member_array_inside_a_mutable_struct)_into_const_globals(scalar,array_element,struct_field,nested,typedef_const,anonymous_const_struct)_x_21_write_forms_x_11_placements(edge_update,statement,for_initialiser/condition/step,if/while/do_condition,returned_value,nested_blocks) */
{
    // placement: 0 edge update, 1 statement of a function body, then every other place of a function body where an expression is evaluated
    int src = vf_pick("!source", NGLV), w = vf_pick("!write", NWF), place = vf_pick("!in_function", 11);
    bool valued = w != 13 && w != 14;   // the write as an int-valued operand (not the comma list / for-initialiser form, not the void call)
#ifndef VF_TIER_THOROUGH
    vf_assume(place <= 1 || src == 0 || src == 1 || src == 3 || src == 9);   // quick: the further placements with four of the access paths
#endif
    vf_assume(place <= 3 || ((place == 9 || place == 10) && w != 13) || valued);   // a comma list is no statement of its own
    auto mk = [&](const char* L) {
        std::string W = wform(w, L), V = "(" + wform(w, L, false) + ")";
        if (w == 13 && place >= 2) W = wform(w, L, false);
        switch (place) {
        case 0: return wrap("", wform(w, L, false));
        case 1: return wrap("void w() { " + W + "; }\n", "w()");
        case 2: return wrap("void w() { for (mj = 0; mj < 2; " + W + ") { mj++; } }\n", "w()");            // step clause of a loop
        case 3: return wrap("void w() { for (" + W + "; mj < 2; mj++) { } }\n", "w()");                     // initialiser clause
        case 4: return wrap("void w() { if (" + V + " > 0) { mj = 1; } }\n", "w()");                        // conditions
        case 5: return wrap("void w() { while (" + V + " > 5) { mj = 1; } }\n", "w()");
        case 6: return wrap("void w() { do { mj = 1; } while (" + V + " > 5); }\n", "w()");
        case 7: return wrap("int w() { return " + V + "; }\n", "mj = w()");                                  // returned value
        case 8: return wrap("void w() { for (mj = 0; " + V + " > 5; mj++) { } }\n", "w()");                 // loop condition
        case 9: return wrap("void w() { for (k : int[0,1]) { if (k > 0) { " + W + "; } else mj = 2; } }\n", "w()");   // nested blocks
        default: return wrap("void w() { { { " + W + "; } } }\n", "w()");
        }
    };
    verdicts(mk(GLV[src][0]), mk(GLV[src][1]));
}

extern "C" void harness_whole_object()  /* vf: bounds=assignment_of_whole_const_struct/array,passing_const_array/struct_to_non-const_reference_parameter_of_function_and_of_template */
{
    int k = vf_pick("!case", 8);
    static const char* CASES[][2] = {
        {"cs = ms2", "ms = ms2"}, {"ca = mb", "ma = mb"}, {"csa[0] = ms2", "msa[0] = ms2"}, {"cs.a = ms2.a", "ms.a = ms2.a"},
        {"f_arr(ca)", "f_arr(ma)"}, {"f_S(cs)", "f_S(ms)"}, {"f_S(csa[1])", "f_S(msa[1])"}, {"f_arr2(cs.a)", "f_arr2(ms.a)"}};
    std::string d = "void f_arr(int& p[3]) { p[0] = 1; }\nvoid f_S(S& p) { p.f = 1; }\nvoid f_arr2(int& p[2]) { p[0] = 1; }\n";
    verdicts(wrap(d, CASES[k][0]), wrap(d, CASES[k][1]));
}

extern "C" void harness_template_ref_argument()  /* vf: bounds=const_object_bound_to_non-const_reference_parameter_of_a_template;11_access_paths(incl._a_const_member_array_inside_a_mutable_struct)+whole_array/struct_x_3_routes(direct,partial_instantiation,chain_of_two) */
{
    int src = vf_pick("!source", NGLV + 2);
    const char* cl; const char* ml; const char* ptype;
    if (src < NGLV) { cl = GLV[src][0]; ml = GLV[src][1]; ptype = "int& r"; }
    else if (src == NGLV) { cl = "ca"; ml = "ma"; ptype = "int& r[3]"; }
    else { cl = "cs"; ml = "ms"; ptype = "S& r"; }
    if (src == 10) { cl = "cfg.lim[1]"; ml = "mcfg.lim[1]"; }
    if (src == 5 || src == 8) { cl = src == 5 ? "csa[0].a[1]" : "ca[2]"; ml = src == 5 ? "msa[0].a[1]" : "ma[2]"; }  // instantiation arguments must be compile-time computable
    // route to the system line: bound directly, through a partial instantiation (the constant in a trailing argument position), through a chain of two
    int route = vf_pick("!route", 3);
    std::string pt = std::string("const int[0,1] id, ") + ptype, xtype = ptype; xtype.replace(xtype.find('r'), 1, "x");
    auto mk = [&](const char* L) {
        if (route == 0) return wrap("", "", ptype, std::string("P0 = P(") + L + "); system P0;");
        if (route == 1) return wrap("", "", pt, std::string("Q(const int[0,1] i) = P(i, ") + L + "); system Q;");
        return wrap("", "", pt, "Q(const int[0,1] i, " + xtype + ") = P(i, x); R(const int[0,1] j) = Q(j, " + L + "); system R;");
    };
    verdicts(mk(cl), mk(ml));
}

extern "C" void harness_locals_and_parameters()  /* vf: bounds=const_local,const_value_parameter,const_reference_parameter,const_local_array/struct,template_const_parameter,template_local_const_x_21_write_forms */
{
    int src = vf_pick("!source", 8), w = vf_pick("!write", NWF);
    std::string cm, mm;
    auto fn = [&](const std::string& params, const std::string& locals, const std::string& L, const std::string& call) {
        return wrap("void w(" + params + ") { " + locals + " " + wform(w, L) + "; }\n", call);
    };
    switch (src) {
    case 0: cm = fn("", "const int cl = 1;", "cl", "w()"); mm = fn("", "int cl = 1;", "cl", "w()"); break;
    case 1: cm = fn("const int p", "", "p", "w(mi)"); mm = fn("int p", "", "p", "w(mi)"); break;
    case 2: cm = fn("const int& p", "", "p", "w(mi)"); mm = fn("int& p", "", "p", "w(mi)"); break;
    case 3: cm = fn("", "const int la[2] = {1, 2};", "la[1]", "w()"); mm = fn("", "int la[2] = {1, 2};", "la[1]", "w()"); break;
    case 4: cm = fn("const S& p", "", "p.a[0]", "w(ms)"); mm = fn("S& p", "", "p.a[0]", "w(ms)"); break;
    case 5: cm = fn("const int& p[3]", "", "p[2]", "w(ma)"); mm = fn("int& p[3]", "", "p[2]", "w(ma)"); break;
    case 6: cm = wrap("", wform(w, "tp", false), "const int tp", "P0 = P(1); system P0;"); mm = wrap("", wform(w, "tp", false), "int& tp", "P0 = P(mi); system P0;"); break;
    case 7: cm = wrap("", wform(w, "tl", false), "", "P0 = P(); system P0;", "", " const int tl = 1;\n"); mm = wrap("", wform(w, "tl", false), "", "P0 = P(); system P0;", "", " int tl = 1;\n"); break;
    }
    verdicts(cm, mm);
}

extern "C" void harness_binders()  /* vf: bounds=select_binder(fresh_or_shadowing_a_global/template-local),for-iteration_binder,forall/exists/sum_binder_x_21_write_forms;twin_writes_a_mutable_in_the_same_place_(no_twin_for_quantifier_bodies:they_must_be_side-effect_free_anyway) */
{
    int src = vf_pick("!binder", 8), w = vf_pick("!write", NWF);
    std::string cm, mm;
    switch (src) {
    case 0: cm = wrap("", wform(w, "k", false), "", "P0 = P(); system P0;", "select k : int[0,1];"); mm = wrap("", wform(w, "mi", false), "", "P0 = P(); system P0;", "select k : int[0,1];"); break;
    case 6: cm = wrap("", wform(w, "mi", false), "", "P0 = P(); system P0;", "select mi : int[0,1];"); mm = wrap("", wform(w, "mi", false)); break;   // a select binder that shadows a global is a constant all the same
    case 7: cm = wrap("", wform(w, "tl", false), "", "P0 = P(); system P0;", "select tl : int[0,1];", " int tl = 1;\n"); mm = wrap("", wform(w, "tl", false), "", "P0 = P(); system P0;", "", " int tl = 1;\n"); break;
    case 1: cm = wrap("void w() { for (k : int[0,1]) " + wform(w, "k") + "; }\n", "w()"); mm = wrap("void w() { for (k : int[0,1]) " + wform(w, "mi") + "; }\n", "w()"); break;
    case 2: cm = wrap("void w() { for (k : int[0,1]) { { " + wform(w, "k") + "; } } }\n", "w()"); mm = wrap("void w() { for (k : int[0,1]) { { " + wform(w, "mi") + "; } } }\n", "w()"); break;
    case 3: cm = wrap("bool q() { return forall (k : int[0,1]) (" + wform(w, "k") + ") > 0; }\n", "mi = q()"); break;
    case 4: cm = wrap("bool q() { return exists (k : int[0,1]) (" + wform(w, "k") + ") > 0; }\n", "mi = q()"); break;
    case 5: cm = wrap("int q() { return sum (k : int[0,1]) (" + wform(w, "k") + "); }\n", "mi = q()"); break;
    }
    bool c = accepted(cm);
    vf_note(cm.c_str() + strlen(GLOBALS)); vf_notei("binder_write_accepted", c);
    vf_assert(!c, "write-to-binder-rejected");
    if (!mm.empty()) { bool m = accepted(mm); vf_notei("mutable_write_accepted", m); vf_assert(m, "same-write-to-mutable-accepted"); }
    vf_reach("end");
}
