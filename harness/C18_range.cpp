// C18: interval operations of range_t agree with their set semantics.
// Real code: include/utap/range.h (every member), instantiated for int8_t, int16_t, int32_t, double.
// All operands and the probe element are symbolic data inputs; the only key input is the operation selector.
#include "utap/range.h"
#include "vf.h"
#include <cstdint>
#include <limits>
using UTAP::range_t;

template <typename T> static T sym(const char* n);
template <> int8_t sym<int8_t>(const char* n) { return vf_i8(n); }
template <> int16_t sym<int16_t>(const char* n) { return vf_i16(n); }
template <> int32_t sym<int32_t>(const char* n) { return vf_int(n); }
template <> double sym<double>(const char* n) { return vf_double(n); }

enum Op { GT, LT, GEQ, LEQ, AND_R, AND_E, OR_R, OR_E, PLUS_R, PLUS_E, MINUS_R, MINUS_E, MUL_E, CONTAINS, INTERSECTS, EQ_R, EQ_E, LESS, GREATER, LESS_EQ, GREATER_EQ, SIZE, MINMAX, NOPS };
static const char* opname[] = {"gt", "lt", "geq", "leq", "and_r", "and_e", "or_r", "or_e", "plus_r", "plus_e", "minus_r", "minus_e", "mul_e", "contains", "intersects", "eq_r", "eq_e", "less", "greater", "less_eq", "greater_eq", "size", "minmax"};

// oracle helpers in a wider type (no overflow possible: 32 bits hold every sum/product of 16-bit operands, 64 bits of 32-bit operands)
template <typename T> struct Wide { typedef int type; };
template <> struct Wide<int32_t> { typedef long type; };
template <typename W> static inline bool in(W lo, W hi, W x) { return lo <= x && x <= hi; }
template <typename W> static inline W wmin(W a, W b) { return a < b ? a : b; }
template <typename W> static inline W wmax(W a, W b) { return a > b ? a : b; }

template <typename T>
static void int_ops()
{
    typedef typename Wide<T>::type W;
    const W lo = std::numeric_limits<T>::min(), hi = std::numeric_limits<T>::max();
    int op = vf_pick("!op", NOPS);
    T a = sym<T>("a"), b = sym<T>("b"), c = sym<T>("c"), d = sym<T>("d"), x = sym<T>("x");
    vf_assume(a <= b);  // non-empty operands
    vf_assume(c <= d);
    range_t<T> r{a, b}, o{c, d};
    vf_note(opname[op]);
    switch (op) {
    case GT:
        vf_assume(c < hi);  // result of stepping past the bound must not overflow
        r.gt(c);
        vf_assert(r.contains(x) == (in<W>(a, b, x) && (W)x > (W)c), "gt-membership");
        break;
    case LT:
        vf_assume(c > lo);
        r.lt(c);
        vf_assert(r.contains(x) == (in<W>(a, b, x) && (W)x < (W)c), "lt-membership");
        break;
    case GEQ: r.geq(c); vf_assert(r.contains(x) == (in<W>(a, b, x) && x >= c), "geq-membership"); break;
    case LEQ: r.leq(c); vf_assert(r.contains(x) == (in<W>(a, b, x) && x <= c), "leq-membership"); break;
    case AND_R: {
        range_t<T> i = r & o;
        vf_assert(i.contains(x) == (in<W>(a, b, x) && in<W>(c, d, x)), "intersection-membership");
        vf_assert(i.empty() == !(wmax<W>(a, c) <= wmin<W>(b, d)), "intersection-empty");
        range_t<T> j = r; j.intersect(o);
        vf_assert(j.contains(x) == i.contains(x), "intersect-same");
        break;
    }
    case AND_E: {
        range_t<T> i = r & c;
        vf_assert(i.contains(x) == (in<W>(a, b, x) && x == c), "intersection-elem-membership");
        break;
    }
    case OR_R: {
        range_t<T> u = r | o;
        vf_assert(u.contains(x) == in<W>(wmin<W>(a, c), wmax<W>(b, d), x), "union-membership");
        range_t<T> v = r; v.add(o);
        vf_assert(v.contains(x) == u.contains(x) && r.unite(o).contains(x) == u.contains(x), "union-same");
        break;
    }
    case OR_E: {
        range_t<T> u = r | c;
        vf_assert(u.contains(x) == in<W>(wmin<W>(a, c), wmax<W>(b, c), x), "union-elem-membership");
        break;
    }
    case PLUS_R: {
        vf_assume(in<W>(lo, hi, (W)a + c) && in<W>(lo, hi, (W)b + d));
        range_t<T> s = r + o;
        vf_assert(s.contains(x) == in<W>((W)a + c, (W)b + d, x), "plus-tightest");
        break;
    }
    case PLUS_E: {
        vf_assume(in<W>(lo, hi, (W)a + c) && in<W>(lo, hi, (W)b + c));
        range_t<T> s = r + c;
        vf_assert(s.contains(x) == in<W>((W)a + c, (W)b + c, x), "plus-elem-tightest");
        break;
    }
    case MINUS_R: {
        vf_assume(in<W>(lo, hi, (W)a - d) && in<W>(lo, hi, (W)b - c));
        range_t<T> s = r - o;
        vf_assert(s.contains(x) == in<W>((W)a - d, (W)b - c, x), "minus-tightest");
        break;
    }
    case MINUS_E: {
        vf_assume(in<W>(lo, hi, (W)a - c) && in<W>(lo, hi, (W)b - c));
        range_t<T> s = r - c;
        vf_assert(s.contains(x) == in<W>((W)a - c, (W)b - c, x), "minus-elem-tightest");
        break;
    }
    case MUL_E: break;  // see mul_elem below (sign-split)
    case CONTAINS:
        vf_assert(r.contains(x) == in<W>(a, b, x), "contains");
        vf_assert((r && x) == in<W>(a, b, x), "contains-op");
        break;
    case INTERSECTS:
        vf_assert(r.intersects(o) == (wmax<W>(a, c) <= wmin<W>(b, d)), "intersects");
        vf_assert((r && o) == (o && r), "intersects-symmetric");
        break;
    case EQ_R: vf_assert((r == o) == (a == c && b == d), "eq"); break;
    case EQ_E: vf_assert((r == c) == (a == c && b == c), "eq-elem"); break;
    case LESS: vf_assert((r < o) == (b < c), "strictly-below"); break;
    case GREATER: vf_assert((r > o) == (a > d), "strictly-above"); break;
    case LESS_EQ: vf_assert((r <= o) == !(a > d), "not-above"); break;
    case GREATER_EQ: vf_assert((r >= o) == !(b < c), "not-below"); break;
    case SIZE:
        vf_assume((long)b - (long)a + 1 <= 0xffffffffL);
        vf_assert((long)r.size() == (long)b - (long)a + 1, "size");
        vf_assert(range_t<T>::make_empty().size() == 0 && range_t<T>::make_empty().empty(), "empty-size");
        break;
    case MINMAX: {
        auto mn = std::min(r, o), mx = std::max(r, o);
        vf_assert(mn.first() == wmin<W>(a, c) && mn.last() == wmin<W>(b, d) && mx.first() == wmax<W>(a, c) && mx.last() == wmax<W>(b, d), "pointwise-minmax");
        break;
    }
    }
    vf_reach("end");
}

// range * range: tightest interval = [min of the four corner products, max of them] (computed in wide arithmetic).
// Split by the signs of the four bounds so that each query multiplies operands of known sign (z3 4.8 is slow otherwise).
template <typename T>
static void mul_range()
{
    typedef typename Wide<T>::type W;
    const W lo = std::numeric_limits<T>::min(), hi = std::numeric_limits<T>::max();
    int sa = vf_bool("!a_neg"), sb = vf_bool("!b_neg"), sc = vf_bool("!c_neg"), sd = vf_bool("!d_neg");
    T a = sym<T>("a"), b = sym<T>("b"), c = sym<T>("c"), d = sym<T>("d"), x = sym<T>("x");
    vf_assume(a <= b); vf_assume(c <= d);
    if (sa) vf_assume(a < 0); else vf_assume(a >= 0);
    if (sb) vf_assume(b < 0); else vf_assume(b >= 0);
    if (sc) vf_assume(c < 0); else vf_assume(c >= 0);
    if (sd) vf_assume(d < 0); else vf_assume(d >= 0);
    W p1 = (W)a * c, p2 = (W)a * d, p3 = (W)b * c, p4 = (W)b * d;
    vf_assume(in<W>(lo, hi, p1) && in<W>(lo, hi, p2) && in<W>(lo, hi, p3) && in<W>(lo, hi, p4));
    range_t<T> s = range_t<T>{a, b} * range_t<T>{c, d};
    W mn = wmin<W>(wmin<W>(p1, p2), wmin(p3, p4)), mx = wmax(wmax(p1, p2), wmax(p3, p4));
    vf_assert((W)s.first() == mn && (W)s.last() == mx, "mul-tightest");
    vf_assert(s.contains(x) == in<W>(mn, mx, x), "mul-membership");
    vf_reach("end");
}

template <typename T>
static void mul_elem()
{
    typedef typename Wide<T>::type W;
    const W lo = std::numeric_limits<T>::min(), hi = std::numeric_limits<T>::max();
    int sa = vf_bool("!a_neg"), sb = vf_bool("!b_neg"), sc = vf_bool("!e_neg");
    T a = sym<T>("a"), b = sym<T>("b"), c = sym<T>("e"), x = sym<T>("x");
    vf_assume(a <= b);
    if (sa) vf_assume(a < 0); else vf_assume(a >= 0);
    if (sb) vf_assume(b < 0); else vf_assume(b >= 0);
    if (sc) vf_assume(c < 0); else vf_assume(c >= 0);
    W p1 = (W)a * c, p2 = (W)b * c;
    vf_assume(in<W>(lo, hi, p1) && in<W>(lo, hi, p2));
    range_t<T> s = range_t<T>{a, b} * c;
    vf_assert((W)s.first() == wmin<W>(p1, p2) && (W)s.last() == wmax<W>(p1, p2), "mul-elem-tightest");
    vf_assert(s.contains(x) == in<W>(wmin<W>(p1, p2), wmax<W>(p1, p2), x), "mul-elem-membership");
    vf_reach("end");
}

// double: comparison-only operations over all doubles (NaN excluded: a range bound is a number), stepping operations on a boundary pool
static void double_ops()
{
    int op = vf_pick("!op", 18);
    double a = vf_double("a"), b = vf_double("b"), c = vf_double("c"), d = vf_double("d"), x = vf_double("x");
    vf_assume(a == a && b == b && c == c && d == d && x == x);
    vf_assume(a <= b); vf_assume(c <= d);
    range_t<double> r{a, b}, o{c, d};
    auto ind = [](double l, double h, double v) { return l <= v && v <= h; };
    auto mn = [](double p, double q) { return p < q ? p : q; };
    auto mx = [](double p, double q) { return p > q ? p : q; };
    switch (op) {
    case 0: r.geq(c); vf_assert(r.contains(x) == (ind(a, b, x) && x >= c), "d-geq-membership"); break;
    case 1: r.leq(c); vf_assert(r.contains(x) == (ind(a, b, x) && x <= c), "d-leq-membership"); break;
    case 2: vf_assert((r & o).contains(x) == (ind(a, b, x) && ind(c, d, x)), "d-intersection-membership"); break;
    case 3: vf_assert((r | o).contains(x) == ind(mn(a, c), mx(b, d), x), "d-union-membership"); break;
    case 4: vf_assert(r.contains(x) == ind(a, b, x), "d-contains"); break;
    case 5: vf_assert(r.intersects(o) == (mx(a, c) <= mn(b, d)), "d-intersects"); break;
    case 6: vf_assert((r == o) == (a == c && b == d), "d-eq"); break;
    case 7: vf_assert((r < o) == (b < c), "d-strictly-below"); break;
    case 8: vf_assert((r > o) == (a > d), "d-strictly-above"); break;
    case 9: vf_assert((r | c).contains(x) == ind(mn(a, c), mx(b, c), x), "d-union-elem"); break;
    case 10: vf_assert((r & c).contains(x) == (ind(a, b, x) && x == c), "d-intersection-elem"); break;
    case 11: vf_assert((r <= o) == !(a > d) && (r >= o) == !(b < c), "d-weak-order"); break;
    // the element overloads and the named aliases
    case 12: vf_assert((r == c) == (a == c && b == c), "d-eq-elem"); break;
    case 13: vf_assert((r && c) == ind(a, b, c) && r.contains(c) == ind(a, b, c), "d-contains-elem"); break;
    case 14: { range_t<double> u = r.unite(o), i = r.intersection(o), u2 = r; u2.add(o); range_t<double> i2 = r; i2.intersect(o);
               vf_assert(u.contains(x) == ind(mn(a, c), mx(b, d), x) && u2.contains(x) == u.contains(x), "d-unite-add-aliases");
               vf_assert(i.contains(x) == (ind(a, b, x) && ind(c, d, x)) && i2.contains(x) == i.contains(x), "d-intersection-aliases"); break; }
    case 15: { range_t<double> u = r.unite(c), i = r.intersection(c), u2 = r; u2.add(c); range_t<double> i2 = r; i2.intersect(c);
               vf_assert(u.contains(x) == ind(mn(a, c), mx(b, c), x) && u2.contains(x) == u.contains(x), "d-unite-add-elem-aliases");
               vf_assert(i.contains(x) == (ind(a, b, x) && x == c) && i2.contains(x) == i.contains(x), "d-intersection-elem-aliases"); break; }
    case 16: { range_t<double> lo = r, hi = r; lo.lower(c); hi.raise(c);
               vf_assert(lo.contains(x) == ind(mn(a, c), b, x) && hi.contains(x) == ind(a, mx(b, c), x), "d-lower-raise"); break; }
    case 17: vf_assert(!r.empty() && r.first() == a && r.last() == b && range_t<double>::make_empty().empty() && (r & o).empty() == !(mx(a, c) <= mn(b, d)), "d-empty-first-last"); break;
    }
    vf_reach("end");
}

// gt/lt on double need nexttoward (libm, concrete only): bound and operands from a pool of boundary values, probe from the same pool
static const double POOL[] = {-std::numeric_limits<double>::infinity(), std::numeric_limits<double>::lowest(), -1.5, -1.0, -std::numeric_limits<double>::denorm_min(), 0.0,
                              std::numeric_limits<double>::denorm_min(), std::numeric_limits<double>::min(), 1.0, 1.0000000000000002, 2.5, std::numeric_limits<double>::max(), std::numeric_limits<double>::infinity()};
static const double ENDS[] = {-std::numeric_limits<double>::infinity(), -1.5, 0.0, 2.5, std::numeric_limits<double>::infinity()};
static void double_step()
{
    const int N = sizeof POOL / sizeof POOL[0];
    int strict_lt = vf_bool("lt"), ia = vf_pick("ia", 5), ib = vf_pick("ib", 5), iu = vf_pick("iu", N), ix = vf_pick("ix", N);
    double a = ENDS[ia], b = ENDS[ib], u = POOL[iu], x = POOL[ix];
    vf_assume(a <= b);
    range_t<double> r{a, b};
    bool inab = a <= x && x <= b;
    if (strict_lt) { r.lt(u); vf_assert(r.contains(x) == (inab && x < u), "d-lt-membership"); }
    else { r.gt(u); vf_assert(r.contains(x) == (inab && x > u), "d-gt-membership"); }
    vf_reach("end");
}

extern "C" void harness_range_i32() { int_ops<int32_t>(); }   /* vf: bounds=all_int32_operands_and_probe;23_operations */
extern "C" void harness_range_i16() { int_ops<int16_t>(); }   /* vf: bounds=all_int16_operands_and_probe;23_operations */
extern "C" void harness_range_i8() { int_ops<int8_t>(); }     /* vf: bounds=all_int8_operands_and_probe;23_operations */
// multiplication (a symbolic-by-symbolic product) is decided for all int8 operands; the same queries for int16 / int32 operands were tried with
// z3, cvc5 (bit-blasting and --solve-bv-as-int=sum) and did not finish within 15 minutes per query, so they are outside the claim
extern "C" void harness_range_mul_i8() { mul_range<int8_t>(); }   /* vf: bounds=all_int8_operands;16_sign_cases timeout_ms=60000 external=cvc5int */
extern "C" void harness_range_mulelem_i8() { mul_elem<int8_t>(); } /* vf: bounds=all_int8_operands;8_sign_cases timeout_ms=60000 external=cvc5int */
extern "C" void harness_range_double() { double_ops(); }      /* vf: bounds=all_non-NaN_doubles;18_operations(comparisons,element_overloads,named_aliases) */
extern "C" void harness_range_double_step() { double_step(); } /* vf: bounds=gt/lt:bound_and_probe_from_a_13-value_boundary_pool,interval_ends_from_5_values_(nexttoward_is_concrete) */
