// C05: XML and XTA renderings of the same model yield equivalent documents.
// Real code: XML side - XMLReader over the libxml2 reader model; XTA side - the whole-file grammar (ProcDecl / ProcBody / States / Branchpoints /
// LocFlags / Init / Transitions incl. chained "-> target" edges and rootTransId, Select / Guard / Sync / Assign / Probability sections,
// "{inv ; rate}"); both drive the real DocumentBuilder, TypeChecker and FeatureChecker.
// Symbolic: edge endpoints incl. branchpoint ends, controllable / uncontrollable, chained rendering, label presence, invariant and rate labels,
// urgent / committed, initial location, one optional fault in a label (so that diagnostics are compared too).
// Oracle: canonical dump, diagnostic multiset (positions ignored) and supported-methods verdict of the two documents are equal.
#include "xmlmodel.h"

static const char* GDECL = "int g; int h; clock x; clock y; chan c; broadcast chan bc; const int K = 2; double d;";
struct Obs { std::string dump, diag, methods; bool threw = false; };
static Obs observe_xml(const MModel& m)
{
    Obs o; XmlDoc d = render_xml(m); Document doc;
    try { parse_xml(d, &doc); } catch (std::exception& e) { o.threw = true; vf_note(e.what()); }
    o.dump = dump_document(doc); o.diag = dump_diagnostics(doc); o.methods = dump_methods(doc);
    assert_invariants(doc, !o.threw, "xml-document-structural-invariants");
    return o;
}
static Obs observe_xta(const MModel& m, bool chain)
{
    Obs o; std::string s = render_xta(m, chain); Document doc;
    try { parse_XTA(s.c_str(), &doc, true); } catch (std::exception& e) { o.threw = true; vf_note(e.what()); }
    o.dump = dump_document(doc); o.diag = dump_diagnostics(doc); o.methods = dump_methods(doc);
    assert_invariants(doc, !o.threw, "xta-document-structural-invariants");
    if (false) vf_note(s.c_str());
    return o;
}
static void compare(const MModel& m, bool chain, bool syntax_fault = false)
{
    Obs a = observe_xml(m), b = observe_xta(m, chain);
    if (a.dump != b.dump || a.diag != b.diag) { vf_note(render_xta(m, chain).c_str()); vf_note(a.dump.c_str()); vf_note(b.dump.c_str()); vf_note(a.diag.c_str()); vf_note(b.diag.c_str()); }
    vf_assert(!a.threw && !b.threw, "both-formats-parsed-without-exception");
    // a label that is not even syntactically an expression is not part of a model: what error recovery leaves in that label is not compared
    if (!syntax_fault) vf_assert(a.dump == b.dump, "same-document");
    if (!syntax_fault) vf_assert(a.diag == b.diag, "same-diagnostics"); else vf_assert(a.diag.empty() == b.diag.empty(), "both-or-neither-report");
    vf_assert(a.methods == b.methods, "same-supported-methods");
}
static MTemplate base_template(const std::string& name, int k)
{
    MTemplate t; t.name = name;
    t.locs = {MLoc{"id" + std::to_string(10 * k), "A"}, MLoc{"id" + std::to_string(10 * k + 1), "B"}, MLoc{"id" + std::to_string(10 * k + 2), "C"}};
    t.bps = {"id" + std::to_string(10 * k + 5)};
    t.init = 0;
    return t;
}

extern "C" void harness_graph()  /* vf: bounds=1_template,3_locations,1_branchpoint;3_edges:edge0_(thorough:and_edge1)_any_endpoints(location_or_branchpoint,not_both),edge2_from_edge1's_source;controllable/uncontrollable_each;chained_or_explicit_XTA_rendering;(thorough:initial_location) time_limit=3300 reach=end */
{
    MModel m; m.gdecl = GDECL; m.system = "system T;";
    MTemplate t = base_template("T", 0);
    for (int e = 0; e < 2; e++) {
        MEdge me; std::string n = std::to_string(e);
#ifndef VF_TIER_THOROUGH
        int s = e == 0 ? vf_pick("!src0", 4) : 1, d = e == 0 ? vf_pick("!dst0", 4) : 2;   // quick tier: the second edge is fixed (B -> C)
#else
        int s = vf_pick(("!src" + n).c_str(), 4), d = vf_pick(("!dst" + n).c_str(), 4);
#endif
        vf_assume(!(s == 3 && d == 3));
        me.src_bp = s == 3; me.src = s == 3 ? 0 : s; me.dst_bp = d == 3; me.dst = d == 3 ? 0 : d;
        me.ctrl = vf_pick(("!uncontrollable" + n).c_str(), 2) ? 2 : 0;
        me.guard = "g < " + std::to_string(10 + e);
        me.assign = "h = " + std::to_string(20 + e);
        t.edges.push_back(me);
    }
    MEdge e2 = t.edges[1]; e2.dst = vf_pick("!dst2", 3); e2.dst_bp = false; e2.ctrl = vf_pick("!uncontrollable2", 2) ? 2 : 0; e2.guard = "g < 12"; e2.assign = "h = 22";
    t.edges.push_back(e2);
#ifdef VF_TIER_THOROUGH
    t.init = vf_pick("!init", 3);
#endif
    m.templs = {t};
    compare(m, vf_pick("!chained", 2));
    vf_reach("end");
}

extern "C" void harness_labels()  /* vf: bounds=2_templates;label_presence(select,guard,sync,assign,probability)_on_edge0,(guard,assign)_on_edge1;location_invariant_and/or_rate,urgent/committed;one_optional_fault(unknown_identifier,type_error,syntax_error,clock_disjunction/double_mark,side_effect)_in_one_of_4_labels(guard,invariant,update,synchronisation) reach=end */
{
    MModel m; m.gdecl = GDECL; m.system = "system T, U;";
    MTemplate t = base_template("T", 0), u = base_template("U", 1);
    int l0 = vf_pick("!labels_edge0", 32), l1 = vf_pick("!labels_edge1", 4), loc = vf_pick("!location_labels", 4), fl = vf_pick("!flag", 3), fault = vf_pick("!fault", 6);
#ifndef VF_TIER_THOROUGH
    vf_assume(fault == 0 || l0 == 31);   // quick tier: faults only in the fully labelled model
#endif
    MEdge e0; e0.src = 0; e0.dst_bp = true; e0.dst = 0;
    if (l0 & 1) e0.select = "k : int[0,2]";
    if (l0 & 2) e0.guard = "g < 10 && x >= 2";
    if (l0 & 4) e0.sync = "c!";
    if (l0 & 8) e0.assign = "h = 20, x = 0";
    MEdge eb; eb.src_bp = true; eb.src = 0; eb.dst = 1;
    if (l0 & 16) eb.prob = "3";
    MEdge e1; e1.src = 1; e1.dst = 2;
    if (l1 & 1) e1.guard = "g < 11";
    if (l1 & 2) e1.assign = "h = 21";
    static const char* FAULT_GUARD[] = {"", "g < nope", "g < c", "g < < 1", "x < 1 || y > 2", "g++ > 1"};
    // where the fault sits: the guard of the third edge, the invariant of the first location, the update or the synchronisation of the first edge
    int site = fault ? vf_pick("!fault_site", 4) : 0;
    static const char* FAULT_INV[] = {"", "x <= nope", "x <= c", "x >= 0 && <= 5", "x < 1 || y > 2", "g++ > 1"};
    static const char* FAULT_UPD[] = {"", "h = nope", "h = c", "h = 20, = 0", "h = (x < 1)", "h = 20, 3 = g"};
    static const char* FAULT_SYNC[] = {"", "nope!", "g!", "c[!", "c!!", "c[g++]!"};
    if (fault && site == 0) e1.guard = FAULT_GUARD[fault];
    if (fault && site == 2) e0.assign = FAULT_UPD[fault];
    if (fault && site == 3) e0.sync = FAULT_SYNC[fault];
    t.edges = {e0, eb, e1};
    if (loc & 1) t.locs[0].inv = "x <= 5";
    if (fault && site == 1) t.locs[0].inv = FAULT_INV[fault];
    if (loc & 2) t.locs[0].rate = "3";
    t.locs[2].urgent = fl == 1; t.locs[2].committed = fl == 2;
    MEdge f; f.src = 1; f.dst = 1; f.sync = "c?"; f.guard = "y >= 1"; u.edges = {f}; u.locs[1].inv = "y <= 4"; u.init = 1;
    m.templs = {t, u};
    // syntax faults: the textual grammar deliberately keeps the well-formed prefix of a broken guard or synchronisation ('T_GUARD Expression error'), the
    // per-label parse of the XML route has no such production; and '{ invariant ; rate }' is one block in the textual format, so a broken invariant
    // takes the rate with it. Those three cases are compared on diagnostics only; a broken lone invariant or update must give the same document.
    bool recovery_differs_by_design = (fault == 3 || fault == 4) && (site == 0 || site == 3 || (site == 1 && (loc & 2)));
    compare(m, false, recovery_differs_by_design && (fault == 3 || site == 3));
    vf_reach("end");
}

extern "C" void harness_location_flags()  /* vf: bounds=4_locations_each_plain/urgent/committed(lists_of_several_urgent_/_committed_names_in_XTA)_x_6_white-space_paddings_of_the_XML_names reach=end */
{
    MModel m; m.gdecl = GDECL; m.system = "system T;";
    MTemplate t = base_template("T", 0);
    t.locs.push_back(MLoc{"id3", "D"});
    for (int l = 0; l < 4; l++) { int f = vf_pick(("!flag" + std::to_string(l)).c_str(), 3); t.locs[l].urgent = f == 1; t.locs[l].committed = f == 2; }
    static const char* PADS[][2] = {{"", ""}, {" ", ""}, {"", " "}, {"  ", "  "}, {"\n      ", "\n    "}, {"\t", "\r\n"}};
    int pad = vf_pick("!name_padding", 6);
    xml_name_pad_left = PADS[pad][0]; xml_name_pad_right = PADS[pad][1];
    MEdge e; e.src = 0; e.dst = 3; e.guard = "g < 1"; t.edges = {e};
    m.templs = {t};
    compare(m, false);
    xml_name_pad_left = xml_name_pad_right = "";
    vf_reach("end");
}

extern "C" void harness_declarations()  /* vf: bounds=template_parameters,local_declarations_and_functions,partial_instantiation,priorities:6_variants_in_both_formats reach=end */
{
    MModel m; m.gdecl = std::string(GDECL) + " int f1(int p) { return p + 1; } typedef int[0,3] small_t; small_t sv;";
    MTemplate t = base_template("T", 0);
    t.params = "const int a, int &r";
    t.decls = "clock z; int loc = 1; int f2() { int q = a; return q; }";
    MEdge e; e.src = 0; e.dst = 1; e.guard = "g < a && z >= 1"; e.assign = "r = f1(a) + f2(), z = 0"; t.edges = {e};
    MTemplate u = base_template("U", 1);
    m.templs = {t, u};
    static const char* SYS[] = {"P1 = T(1, g); system P1, U;", "P1 = T(1, g); P2 = T(K, h); system P1, P2, U;", "Q(const int z) = T(z, g); P1 = Q(3); system P1, U;",
                                "P1 = T(1, g); P2 = T(2, h); system P1 < P2, U;", "P1 = T(1, g); system U, P1;", "chan priority c < bc; P1 = T(1, g); system P1, U;"};
    m.system = SYS[vf_pick("!system", 6)];
    compare(m, false);
    vf_reach("end");
}
