// C08: parsed documents satisfy the structural invariants clients rely on - after any parse: normal return, diagnostics, or exception.
// Real code: XMLReader (over the libxml2 reader model) or the whole-file XTA grammar, DocumentBuilder error recovery, Document::add_* /
// template_t::add_* / declarations_t::add_function / add_instance / add_process, symbol user-data registration.
// Symbolic: the input format, the fault injected into an otherwise valid two-template model (duplicate names at symbolic positions, unresolved
// references, missing init, faulty text blocks, wrong instantiations, duplicate ids, ...), chained partial instantiation depth.
// Oracle: check_document() in docdump.h, written from the header comments of document.h and the property statement.
#include "xmlmodel.h"

static MModel base_model()
{
    MModel m;
    m.gdecl = "int g; int h; clock x; chan c; const int K = 2; int f1(int p) { return p + 1; }";
    MTemplate t; t.name = "T"; t.params = "const int a, int &r"; t.decls = "clock y; int loc; int f2() { int q = 1; return q; }";
    t.locs = {MLoc{"id0", "A", "y <= 5"}, MLoc{"id1", "B"}, MLoc{"id2", ""}, MLoc{"id3", "D"}};
    t.locs[3].urgent = true;
    t.bps = {"id5"};
    t.init = 0;
    MEdge e0; e0.src = 0; e0.dst = 1; e0.guard = "g < a"; e0.assign = "r = f1(a)";
    MEdge e1; e1.src = 1; e1.dst_bp = true; e1.dst = 0; e1.sync = "c!";
    MEdge e2; e2.src_bp = true; e2.src = 0; e2.dst = 2; e2.prob = "1";
    MEdge e3; e3.src = 2; e3.dst = 2; e3.select = "k : int[0,2]"; e3.guard = "k < K";
    t.edges = {e0, e1, e2, e3};
    MTemplate u; u.name = "U";
    u.locs = {MLoc{"id10", "A"}, MLoc{"id11", "B", "x <= 9"}};
    u.init = 1;
    MEdge f; f.src = 1; f.dst = 0; f.sync = "c?"; u.edges = {f};
    m.templs = {t, u};
    m.system = "Q(const int z) = T(z, g); R() = Q(3); P1 = R(); P2 = T(K, h); system P1, P2, U;";
    return m;
}

static const int NFAULT = 35;
static const char* FAULTNAME[NFAULT] = {"none", "duplicate-location-name", "location-named-like-local-variable", "duplicate-template-name", "unknown-source-ref", "unknown-target-ref",
    "unknown-init-ref", "duplicate-global-variable", "duplicate-local-variable", "syntax-error-in-guard", "unknown-identifier-in-invariant", "duplicate-process", "too-few-arguments", "too-many-arguments",
    "duplicate-id", "duplicate-function", "location-named-like-parameter", "syntax-error-in-declaration", "syntax-error-in-parameters", "unknown-template-in-system", "duplicate-select-binder",
    "syntax-error-in-system", "type-error-in-update", "instance-named-like-template",
    "init-without-ref", "no-init-element", "target-is-a-parameter", "target-is-a-local-variable", "target-is-a-function", "target-is-a-clock",
    "init-is-a-branchpoint", "init-is-a-local-variable", "duplicate-function-local-variable", "duplicate-function-parameter", "variable-named-like-function"};
// returns false if the fault cannot be expressed in the chosen format
static bool inject(MModel& m, int fault, int pos, bool xml)
{
    MTemplate& t = m.templs[0];
    switch (fault) {
    case 0: return true;
    case 1: t.locs[1 + pos % 3].name = pos < 3 ? "A" : t.locs[(1 + pos) % 3 + 1 > 3 ? 1 : (1 + pos) % 3 + 1].name; if (t.locs[1 + pos % 3].name.empty()) t.locs[1 + pos % 3].name = "A"; return true;
    case 2: t.locs[pos % 4].name = "loc"; return true;
    case 3: m.templs[1].name = "T"; return true;
    case 4: if (!xml) return false; t.locs.push_back(MLoc{"nowhere", "Z"}); t.edges[pos % 4].src = 4; t.edges[pos % 4].src_bp = false; return true;   // rendered, then the location is removed below
    case 5: if (!xml) return false; t.locs.push_back(MLoc{"nowhere", "Z"}); t.edges[pos % 4].dst = 4; t.edges[pos % 4].dst_bp = false; return true;
    case 6: if (!xml) return false; t.locs.push_back(MLoc{"nowhere", "Z"}); t.init = 4; return true;
    case 7: m.gdecl += " int g;"; return true;
    case 8: t.decls += " clock y;"; return true;
    case 9: t.edges[pos % 4].guard = "g < < 3"; return true;
    case 10: t.locs[pos % 4].inv = "nope <= 5"; return true;
    case 11: m.system = "P1 = T(1, g); P1 = T(2, h); system P1;"; return true;
    case 12: m.system = "P1 = T(1); system P1, U;"; return true;
    case 13: m.system = "P1 = T(1, g, h); system P1, U;"; return true;
    case 14: if (!xml) return false; t.locs[1 + pos % 3].id = "id0"; return true;
    case 15: m.gdecl += " int f1(int p) { return p; }"; return true;
    case 16: t.locs[pos % 4].name = "a"; return true;
    case 17: t.decls = "clock y; int loc int z; int f2() { return 1; }"; return true;
    case 18: t.params = "const int a, int &"; return true;
    case 19: m.system = "P1 = V(1); system P1, U;"; return true;
    case 20: t.edges[3].select = "k : int[0,2], k : int[0,3]"; return true;
    case 21: m.system = "P2 = T(K, h); system P2, , U;"; return true;
    case 22: t.edges[pos % 4].assign = "g = c"; return true;
    case 23: m.system = "T = T(1, g); system T, U;"; return true;
    // init names something of the template that is not a location
    case 30: if (xml) t.init_ref_override = t.bps[0]; else t.init_name_override = "_" + t.bps[0]; return true;
    case 31: if (xml) { m.templs[1].locs.push_back(MLoc{"id19", "loc"}); t.init_ref_override = "id19"; } else t.init_name_override = "loc"; return true;
    // duplicates inside functions, and between the kinds of declarations
    case 32: (pos % 2 ? m.gdecl : t.decls) += " int f3(int p) { int q = p; int q = 2; return q; }"; return true;
    case 33: (pos % 2 ? m.gdecl : t.decls) += " int f4(int p, int p) { return p; }"; return true;
    case 34: (pos % 2 ? m.gdecl : t.decls) += " int f5() { return 1; } int f5; int f6; int f6() { return 2; }"; return true;
    case 24: case 25: return xml;   // applied to the node stream below
    // the target of an edge names something that exists in the template's scope but is not a location
    case 26: case 27: case 28: case 29: {
        static const char* NAMES[] = {"a", "loc", "f2", "y"};
        MEdge& e = t.edges[pos % 4];
        e.dst_bp = false; e.dst = 0;
        if (!xml) { e.dst_name_override = NAMES[fault - 26]; return true; }
        // XML: ids map to names globally; a location of the OTHER template carries the name of this template's symbol
        m.templs[1].locs.push_back(MLoc{"id19", NAMES[fault - 26]});
        e.dst_ref_override = "id19";
        return true; }
    }
    return false;
}

extern "C" void harness_recovery()  /* vf: bounds=2_formats(XML_node_stream,whole-file_XTA)_x_35_faults_x_4_fault_positions_in_a_2-template_model_with_branchpoint,select,functions,chained_partial_instantiation reach=end */
{
    bool xml = vf_pick("!xml", 2);
    int fault = vf_pick("!fault", NFAULT), pos = vf_pick("!position", 4);
    MModel m = base_model();
    vf_assume(inject(m, fault, pos, xml));
    Document doc;
    bool threw = false;
    if (xml) {
        XmlDoc d = render_xml(m);
        if (fault >= 4 && fault <= 6) {   // drop the helper location again: its id stays referenced but is never declared
            std::vector<VNode> keep; bool skipping = false;
            for (auto& n : d.nodes) {
                if (n.type == 1 && !strcmp(n.name, "location") && !n.attrs.empty() && n.attrs[0].value == "nowhere") skipping = true;
                if (!skipping) keep.push_back(n);
                if (skipping && n.type == 15 && !strcmp(n.name, "location")) skipping = false;
            }
            d.nodes = keep;
        }
        if (fault == 24) { for (auto& n : d.nodes) if (n.type == 1 && !strcmp(n.name, "init") && pos % 2 == 0) { n.attrs.clear(); break; } else if (n.type == 1 && !strcmp(n.name, "init")) { pos = 0; } }
        if (fault == 24 && pos % 2) { int seen = 0; for (auto& n : d.nodes) if (n.type == 1 && !strcmp(n.name, "init") && seen++ == 1) n.attrs.clear(); }
        if (fault == 25) { std::vector<VNode> keep; int seen = 0; for (auto& n : d.nodes) { if (n.type == 1 && !strcmp(n.name, "init") && seen++ == pos % 2) continue; keep.push_back(n); } d.nodes = keep; }
        try { parse_xml(d, &doc); } catch (std::exception& e) { threw = true; vf_note(e.what()); }
    } else {
        std::string s = render_xta(m);
        vf_note(s.c_str());
        try { parse_XTA(s.c_str(), &doc, true); } catch (std::exception& e) { threw = true; vf_note(e.what()); }
    }
    vf_note(FAULTNAME[fault]); vf_notei("threw", threw); vf_notei("errors", (long)doc.get_errors().size());
    note_errors(doc);
    vf_reach("end");
    if (fault == 0) vf_assert(!threw && !doc.has_errors(), "fault-free-model-accepted");
    assert_invariants(doc, !threw);
}

// instances: every (partial) instance lists unbound parameters first, maps exactly its bound ones, type arity = #unbound
extern "C" void harness_instances()  /* vf: bounds=chains_of_partial_instantiation_of_depth_0..3_with_0..2_open_parameters_per_step,bound_in_either_order;process_from_any_step */
{
    int depth = vf_range("!depth", 0, 3), open = vf_range("!open_parameters", 0, 2), flip = vf_pick("!flip", 2), used = vf_pick("!instantiated_step", 4);
    vf_assume(used <= depth);
    MModel m = base_model();
    m.templs[0].params = "const int a, const int b, int &r";
    m.templs[0].edges[0].guard = "g < a + b";
    // step k: I<k>(open params) = I<k-1>(...), I0 == T
    std::string sys, prev = "T"; int prev_open = 3;   // T has 3 parameters: a, b, r
    std::vector<int> opens{3};
    for (int k = 1; k <= depth; k++) {
        std::string n = "I" + std::to_string(k), ps, as;
        int no = open < prev_open ? open : prev_open;   // parameters left open at this step
        // previous step's parameters in order; the first `no` of them (or the last, if flipped) stay open
        std::vector<std::string> kinds;   // kinds of prev's open parameters
        // T: (const int, const int, int&); later steps keep the kinds of what they left open
        static std::vector<std::string> prevkinds; if (k == 1) prevkinds = {"const int", "const int", "int &"};
        std::vector<std::string> newkinds;
        for (int i = 0; i < prev_open; i++) {
            bool keep = flip ? i >= prev_open - no : i < no;
            std::string pn = "p" + std::to_string(k) + "_" + std::to_string(i);
            if (keep) { ps += (ps.empty() ? "" : ", ") + prevkinds[i] + (prevkinds[i] == "int &" ? "" : " ") + pn; as += (as.empty() ? "" : ", ") + pn; newkinds.push_back(prevkinds[i]); }
            else as += (as.empty() ? "" : ", ") + std::string(prevkinds[i] == "int &" ? (k % 2 ? "g" : "h") : std::to_string(k));
        }
        sys += n + "(" + ps + ") = " + prev + "(" + as + ");\n";
        prev = n; prev_open = (int)newkinds.size(); prevkinds = newkinds; opens.push_back(prev_open);
    }
    // the process: instantiate step `used` fully
    std::string target = used == 0 ? "T" : "I" + std::to_string(used);
    // recompute the kinds of that step's open parameters
    std::string args;
    {
        std::vector<std::string> kinds = {"const int", "const int", "int &"}; int po = 3;
        for (int k = 1; k <= used; k++) { int no = open < po ? open : po; std::vector<std::string> nk; for (int i = 0; i < po; i++) if (flip ? i >= po - no : i < no) nk.push_back(kinds[i]); kinds = nk; po = (int)nk.size(); }
        for (auto& kd : kinds) args += (args.empty() ? "" : ", ") + std::string(kd == "int &" ? "h" : "7");
    }
    m.system = sys + "P1 = " + target + "(" + args + ");\nsystem P1, U;";
    XmlDoc d = render_xml(m);
    Document doc;
    bool threw = false;
    try { parse_xml(d, &doc); } catch (std::exception& e) { threw = true; vf_note(e.what()); }
    vf_note(m.system.c_str());
    note_errors(doc);
    vf_assert(!threw && !doc.has_errors(), "instantiation-chain-accepted");
    assert_invariants(doc, !threw);
    // the process maps every template parameter
    if (!threw && !doc.has_errors()) {
        auto& p = doc.get_processes().front();
        size_t tp = 0; for (size_t k = 0; k < p.parameters.get_size(); k++) { auto n = p.parameters[k].get_name(); if (n == "a" || n == "b" || n == "r") tp += p.mapping.count(p.parameters[k]); }
        vf_assert(tp == 3 && p.unbound == 0, "process-binds-every-template-parameter");
    }
    vf_reach("end");
}
