// C01 (families: token strings through the grammar and builders; bytes through the lexer; printing).
// Real code: lexer_flex, utap_parse with every error production and the CALL macro, ExpressionBuilder / StatementBuilder / DocumentBuilder callbacks
// (the unchecked fragments / typeFragments / frames stacks), TigaPropertyBuilder, PrettyPrinter, TypeChecker on whatever the parse left behind,
// expression_t::str / type_t::str on every tree produced.
// Symbolic: the grammar entry point, a string of N tokens from that entry's alphabet (every token class the sub-grammar mentions plus an undeclared
// identifier, a type name and a foreign token), the back end; for the lexer N arbitrary bytes.
// Oracle: the call returns or throws something derived from std::exception, within the instruction budget; all memory accesses valid (engine).
#include "xmlmodel.h"

static const char* DECLS =
    "int i; int j; clock x; bool b; double d; chan c; chan ca[2]; int arr[3]; typedef int[0,3] T_t; struct { int f; int g; } r; const int K = 2;\n"
    "int fn(int p, int q) { return p + q; }\n void vf() { }\n";
// per-entry alphabets
static const char* EXPR[] = {"i", "x", "b", "fn", "T_t", "r", "arr", "c", "nope", "1", "2.5", "true", "+", "-", "*", "<", "==", "&&", "!", "=", "++", "?", ":", ",", "(", ")", "[", "]", ".", "f", "'", "forall", "int", "imply", ";", "{", "deadlock", "<?"};
static const char* DECL[] = {"int", "clock", "const", "T_t", "struct", "typedef", "void", "chan", "bool", "i", "z", "fn", "nope", "1", "=", ",", ";", "(", ")", "[", "]", "{", "}", "return", "if", "else", "for", "while", "+", "<", ":", "&", "meta", "urgent", "broadcast", "scalar", "?", "++"};
static const char* SYS[] = {"system", "P", "Q", "TT", "nope", "i", "1", "=", "(", ")", ",", ";", "<", "{", "}", "int", "&", "progress", "chan", "priority", "c", "default", ":", "gantt"};
static const char* PROP[] = {"A[]", "E<>", "A<>", "E[]", "-->", "i", "b", "x", "P", ".", "1", "<", "&&", "!", "(", ")", "Pr", "[", "]", "<=", "#", ";", ":", "<>", "[]", "simulate", "{", "}", ",", "E", "max", "control", "sup", "inf", "U", "deadlock", ">=", "0.5", "not", "strategy", "=", "under", "nope", "\n"};
static const char* SEL[] = {"k", "i", ":", "int", "[", "]", "0", "2", ",", "T_t", "nope", "scalar", "clock", "(", ")", "const", "struct", "{", "}", ";"};
struct Entry { const char* name; xta_part_t part; const char** alpha; int nalpha; };
#define AL(a) a, (int)(sizeof a / sizeof a[0])
static const Entry ENTRIES[] = {
    {"expression", S_EXPRESSION, AL(EXPR)}, {"guard", S_GUARD, AL(EXPR)}, {"invariant", S_INVARIANT, AL(EXPR)}, {"update", S_ASSIGN, AL(EXPR)}, {"sync", S_SYNC, AL(EXPR)},
    {"probability", S_PROBABILITY, AL(EXPR)}, {"rate", S_EXPONENTIAL_RATE, AL(EXPR)}, {"expression-list", S_EXPRESSION_LIST, AL(EXPR)},
    {"declaration", S_DECLARATION, AL(DECL)}, {"local-declaration", S_LOCAL_DECL, AL(DECL)}, {"parameters", S_PARAMETERS, AL(DECL)}, {"select", S_SELECT, AL(SEL)},
    {"system", S_SYSTEM, AL(SYS)}, {"instantiation", S_INST, AL(SYS)}, {"property", S_PROPERTY, AL(PROP)}};
static const int NENTRIES = sizeof ENTRIES / sizeof ENTRIES[0];
static const long BUDGET = 20 * 1000 * 1000;

static void walk_str(const expression_t& e)
{
    if (e.empty()) return;
    try { (void)e.str(); (void)e.get_type().str(); } catch (std::exception&) {}   // a std::exception is an allowed outcome; anything else is caught by the engine
}
// shared prefix of all paths of a harness: a builder that has seen the built-in declarations, a declaration block and a template
struct Fixture {
    Document doc; DocumentBuilder b; bool nx;
    explicit Fixture(bool oldsyntax): b(doc), nx(!oldsyntax)
    {
        try {
            if (nx) parse_XTA(utap_builtin_declarations(), &b, true, S_DECLARATION, "");
            parse_XTA(nx ? DECLS : "int i; int j; clock x; chan c; int arr[3]; const K 2;", &b, nx, S_DECLARATION, "/nta/declaration");
            parse_XTA("process TT(int tp) { state A { tp > 0 }, B; init A; }", &b, nx, S_XTA_PROCESS, "/p");   // no edge: the edge around a label under test is the builder's first
        } catch (std::exception&) {}
    }
};
static bool vary_edge_ends = true;   // the length-3 token harness keeps the enclosing edge well-formed (its budget goes into the third token)
// one block through the DocumentBuilder back end, then a valid block with the same builder (exposes unbalanced stacks), then the type checker
static void run_document_backend(Fixture& fx, const Entry& en, const std::string& text)
{
    Document& doc = fx.doc; DocumentBuilder& b = fx.b; bool nx = fx.nx;
    vf_budget(BUDGET);
    const char* outcome = "returned";
    bool edge_ctx = en.part == S_GUARD || en.part == S_ASSIGN || en.part == S_SYNC || en.part == S_SELECT || en.part == S_PROBABILITY;
    // the edge around an edge label may itself have failed to be added (unknown source, target of the wrong kind): the reader still parses its labels
    int ends = edge_ctx && vary_edge_ends ? vf_pick("!edge_ends", 3) : 0;
    bool proc_ctx = edge_ctx || en.part == S_INVARIANT || en.part == S_EXPONENTIAL_RATE || en.part == S_LOCAL_DECL || en.part == S_PARAMETERS;
    try {
        // labels are parsed between the callbacks the XML reader issues around them
        if (en.part == S_PARAMETERS) { parse_XTA(text.c_str(), &b, nx, en.part, "/x"); b.proc_begin("P2"); }
        else if (proc_ctx) { b.proc_begin("P2"); b.proc_location("L0", false, false); b.proc_location("L1", false, false); }
        if (edge_ctx) b.proc_edge_begin(ends == 1 ? "nope" : "L0", ends == 2 ? "i" : "L1", true, "");
        if (en.part != S_PARAMETERS) parse_XTA(text.c_str(), &b, nx, en.part, "/x");
        if (en.part == S_INVARIANT || en.part == S_EXPONENTIAL_RATE) b.proc_location("L2", en.part == S_INVARIANT && !doc.has_errors(), en.part == S_EXPONENTIAL_RATE && !doc.has_errors());
        // a second, valid block with the same builder
        if (edge_ctx) { parse_XTA("i < 1 && x > 2", &b, nx, S_GUARD, "/y"); b.proc_edge_end("L0", "L1"); }
        if (proc_ctx) { b.proc_location_init("L0"); b.proc_end(); }
        parse_XTA(nx ? "int after[3], after2 = 1;" : "int after[3], after2;", &b, nx, S_DECLARATION, "/z");
        parse_XTA("PA = TT(1); system PA;", &b, nx, S_SYSTEM, "/s");
        b.done();
    } catch (std::exception&) { outcome = "std::exception"; }
    // as the library's entry points do: static analysis (and here also printing) only for documents without errors
    try {
        if (!doc.has_errors()) {
            for (size_t k = 0; k < b.getExpressions().size(); k++) walk_str(b.getExpressions()[k]);
            TypeChecker tc{doc}; doc.accept(tc); FeatureChecker fc{doc};
            if (!doc.has_errors()) (void)dump_document(doc);   // printing only of what the whole pipeline accepted
        }
    } catch (std::exception&) { outcome = "std::exception"; }
    // whatever happened above, the next parse in this process (a fresh document and builder) behaves as in a fresh process
    try {
        Document d2; DocumentBuilder b2(d2);
        parse_XTA("int fresh[3], fresh2;", &b2, nx, S_DECLARATION, "/f");
        bool good = !d2.has_errors() && d2.get_globals().variables.size() == 2 && d2.get_globals().variables.front().uid.get_type().is_array() && d2.get_globals().variables.back().uid.get_type().is_integer();
        vf_assert(good, "next-parse-in-the-process-unaffected");
    } catch (std::exception&) { vf_assert(false, "next-parse-in-the-process-unaffected"); }
    vf_budget(-1);
    vf_note(outcome); vf_notei("errors", (long)doc.get_errors().size());
    assert_invariants(doc, !strcmp(outcome, "returned"));
}
struct PropFixture { Document doc; PropFixture() { try { parse_XTA((std::string(DECLS) + "process P() { state A; init A; } system P;").c_str(), &doc, true); } catch (std::exception&) {} } };
static void run_property_backend(PropFixture& pf, const std::string& text, int backend)
{
    Document& doc = pf.doc;
    vf_budget(BUDGET);
    const char* outcome = "returned";
    try {
        if (backend == 0) { TigaPropertyBuilder pb(doc); parseProperty(text.c_str(), &pb, "/q"); for (auto& p : pb.getProperties()) walk_str(p.intermediate); }
        else { std::ostringstream os; PrettyPrinter pp(os); parseProperty(text.c_str(), &pp, "/q"); }
    } catch (std::exception&) { outcome = "std::exception"; }
    vf_budget(-1);
    vf_note(outcome);
}
static std::string token_string(const Entry& en, int n, const char* prefix = "")
{
    std::string text = prefix;
    for (int k = 0; k < n; k++) text += std::string(text.empty() ? "" : " ") + en.alpha[vf_pick(("!t" + std::to_string(k)).c_str(), en.nalpha)];
    return text;
}

extern "C" void harness_tokens2()  /* vf: tier=quick bounds=15_grammar_entry_points_x_all_token_strings_of_length_2_over_the_entry's_alphabet(20..44_spellings);DocumentBuilder+TypeChecker+FeatureChecker_back_end_(property_entry:TigaPropertyBuilder) reach=end */
{
    Fixture fx(false); PropFixture pf;
    int e = vf_pick("!entry", NENTRIES);
    const Entry& en = ENTRIES[e];
    std::string text = token_string(en, 2);
    vf_note(en.name); vf_note(text.c_str());
    if (en.part == S_PROPERTY) run_property_backend(pf, text, 0); else run_document_backend(fx, en, text);
    vf_reach("end");
}
extern "C" void harness_tokens3()  /* vf: tier=thorough bounds=15_grammar_entry_points_x_all_token_strings_of_length_3;same_back_ends time_limit=3300 max_paths=4000000 reach=end */
{
    Fixture fx(false); PropFixture pf;
    vary_edge_ends = false;
    int e = vf_pick("!entry", NENTRIES);
    const Entry& en = ENTRIES[e];
    std::string text = token_string(en, 3);
    vf_note(en.name); vf_note(text.c_str());
    if (en.part == S_PROPERTY) run_property_backend(pf, text, 0); else run_document_backend(fx, en, text);
    vf_reach("end");
}
// a valid prefix followed by two arbitrary tokens: reaches the error productions deep inside statements, calls, quantifiers, struct and array declarators
extern "C" void harness_prefixed_tokens()  /* vf: tier=quick bounds=26_valid_prefixes(function_bodies,nested_blocks,quantifiers,calls,array/struct_declarators,queries,strategy_declarations_and_uses)_followed_by_1_arbitrary_token(quick)_of_the_entry's_alphabet;new_and_old_syntax;3_back_ends reach=end */
{
    struct Pre { int entry; const char* text; };
    static const Pre PRE[] = {
        {8, "int f2(int p) { int q = p; if (q > 1) {"}, {8, "int f2(int p) { for (k : int[0,1]) {"}, {8, "int f2() { return fn(1,"}, {8, "int a2[int[0,1]][int[0,1]]["}, {8, "struct { int a; int"}, {8, "typedef struct { int a; }"},
        {8, "int q[3] = { 1,"}, {8, "bool e = exists (p : Worker)(true);"}, {8, "int s = sum (k : int[0,1])"}, {8, "void g2() { while (i < 3) { i++; } do {"},
        {0, "fn(i, arr["}, {0, "forall (k : int[0,2]) arr[k] > 0 &&"}, {0, "b ? i :"}, {0, "r.f + r."}, {1, "i < 3 && (x >"}, {3, "i = 1, arr[0] ="}, {4, "ca[i"},
        {11, "k : int[0,2], j :"}, {12, "P1 = TT(1); system P1 <"}, {14, "Pr[<=10] (<> b) >="}, {14, "simulate [<=10] {i,"}, {14, "E<> forall (k : int[0,2]) arr[k] >"},
        {14, "strategy S1 = control: A<>"}, {14, "strategy S1 = minE(i)[<=10] : <>"}, {14, "saveStrategy(\"f\","}, {14, "E<> b under"}};
    int old = vf_pick("!old_syntax", 2);
    Fixture fx(old); PropFixture pf;
    int p = vf_pick("!prefix", 26), backend = vf_pick("!backend", 2);
    const Entry& en = ENTRIES[PRE[p].entry];
    vf_assume(!old || (en.part != S_PROPERTY && en.part != S_SELECT && en.part != S_SYNC));
    vf_assume(backend == 0 || en.part == S_PROPERTY);
    std::string text = token_string(en, 1, PRE[p].text);
    vf_note(en.name); vf_note(text.c_str());
    if (en.part == S_PROPERTY) run_property_backend(pf, text, backend); else run_document_backend(fx, en, text);
    vf_reach("end");
}
extern "C" void harness_prefixed_tokens2()  /* vf: tier=thorough bounds=26_valid_prefixes_followed_by_2_arbitrary_tokens;new_and_old_syntax;3_back_ends time_limit=3300 reach=end */
{
    struct Pre { int entry; const char* text; };
    static const Pre PRE[] = {
        {8, "int f2(int p) { int q = p; if (q > 1) {"}, {8, "int f2(int p) { for (k : int[0,1]) {"}, {8, "int f2() { return fn(1,"}, {8, "int a2[int[0,1]][int[0,1]]["}, {8, "struct { int a; int"}, {8, "typedef struct { int a; }"},
        {8, "int q[3] = { 1,"}, {8, "bool e = exists (p : Worker)(true);"}, {8, "int s = sum (k : int[0,1])"}, {8, "void g2() { while (i < 3) { i++; } do {"},
        {0, "fn(i, arr["}, {0, "forall (k : int[0,2]) arr[k] > 0 &&"}, {0, "b ? i :"}, {0, "r.f + r."}, {1, "i < 3 && (x >"}, {3, "i = 1, arr[0] ="}, {4, "ca[i"},
        {11, "k : int[0,2], j :"}, {12, "P1 = TT(1); system P1 <"}, {14, "Pr[<=10] (<> b) >="}, {14, "simulate [<=10] {i,"}, {14, "E<> forall (k : int[0,2]) arr[k] >"},
        {14, "strategy S1 = control: A<>"}, {14, "strategy S1 = minE(i)[<=10] : <>"}, {14, "saveStrategy(\"f\","}, {14, "E<> b under"}};
    int old = vf_pick("!old_syntax", 2);
    Fixture fx(old); PropFixture pf;
    int p = vf_pick("!prefix", 26), backend = vf_pick("!backend", 2);
    const Entry& en = ENTRIES[PRE[p].entry];
    vf_assume(!old || (en.part != S_PROPERTY && en.part != S_SELECT && en.part != S_SYNC));
    vf_assume(backend == 0 || en.part == S_PROPERTY);
    std::string text = token_string(en, 2, PRE[p].text);
    if (en.part == S_PROPERTY) run_property_backend(pf, text, backend); else run_document_backend(fx, en, text);
    vf_reach("end");
}

// the lexer on arbitrary bytes: every byte value once, and pairs over a 40-character alphabet, inside valid context; all three syntax modes
static const unsigned char BYTES2[] = {'a', 'Z', '_', '0', '9', ' ', '\t', '\n', '\r', '\\', '/', '*', '"', '\'', '=', '<', '>', '-', '+', '.', ':', '!', '&', '|', '#', '$', '@', '?', '%', '^', '~', '`', '[', '{', ';', 0x01, 0x7f, 0x80, 0xc3, 0xff};
extern "C" void harness_lexer_bytes()  /* vf: tier=quick bounds=one_arbitrary_byte(all_255_non-zero_values)_followed_by_one_byte_from_a_40-character_alphabet(quick:8)_inside_a_declaration_/_old-syntax_expression_/_property reach=end */
{
    Document doc; DocumentBuilder b(doc);
    try { parse_XTA("int i;", &b, true, S_DECLARATION, ""); } catch (std::exception&) {}
    int mode = vf_pick("!mode", 3);
    char buf[64];
    const char* pre = mode == 0 ? "int q = 1 " : mode == 1 ? "i + " : "A[] i < ";
    size_t n = strlen(pre);
    memcpy(buf, pre, n);
    int b0 = vf_range("!byte0", 1, 255);
#ifdef VF_TIER_THOROUGH
    int b1 = BYTES2[vf_pick("!byte1", 40)];
#else
    static const unsigned char Q[] = {'a', ' ', '\n', '/', '*', '"', '=', 0x80};
    int b1 = Q[vf_pick("!byte1", 8)];
#endif
    buf[n] = (char)b0; buf[n + 1] = (char)b1; memcpy(buf + n + 2, " 1;", 4);
    vf_budget(BUDGET);
    try {
        if (mode == 0) parse_XTA(buf, &b, true, S_DECLARATION, "/d");
        else if (mode == 1) parse_XTA(buf, &b, false, S_EXPRESSION, "/e");
        else { TigaPropertyBuilder pb(doc); parseProperty(buf, &pb, "/q"); }
    } catch (std::exception&) {}
    vf_budget(-1);
    vf_reach("end");
}
extern "C" void harness_long_identifier()  /* vf: tier=quick bounds=identifier_of_3998..4003_characters(MAXLEN_boundary_of_the_fixed_4001-byte_token_buffers),as_variable_name_/_type_name_/_string_literal reach=end */
{
    int len = vf_range("!length", 3998, 4003), what = vf_pick("!what", 3);
    std::string id(len, 'a');
    std::string text = what == 0 ? "int " + id + " = 1; int u = " + id + ";" : what == 1 ? "typedef int " + id + "; " + id + " v;" : "int z = 1; /* " + id + " */ int z2 = \"" + id + "\";";
    Document doc; DocumentBuilder b(doc);
    vf_budget(4 * BUDGET);
    try { parse_XTA(text.c_str(), &b, true, S_DECLARATION, "/d"); (void)dump_document(doc); } catch (std::exception&) {}
    vf_budget(-1);
    vf_reach("end");
}

// semantically wrong but syntactically plausible blocks: error paths of the builders (duplicate definitions, wrong kinds, bad references)
extern "C" void harness_semantic_errors()  /* vf: tier=quick bounds=60_erroneous_declaration/parameter/system/label_snippets(duplicate_and_conflicting_definitions,wrong_symbol_kinds,bad_struct/array/function/typedef_uses,unknown_templates)_x_new/old_syntax reach=end */
{
    struct Snip { int entry; const char* text; };
    static const Snip SNIPS[] = {
        {8, "int fn(int a) { return a; }"}, {8, "int dup() { return 1; } int dup() { return 2; }"}, {8, "int i() { return 1; }"}, {8, "int INT8_MAX() { return 1; }"}, {8, "void vf() { } int vf;"},
        {8, "int i; clock i;"}, {8, "typedef int T_t; T_t T_t;"}, {8, "typedef int i;"}, {8, "struct { int a; int a; } s2;"}, {8, "struct { clock a; } s3 = { 1 };"}, {8, "int a3[0]; int a4[-1];"},
        {8, "int a5[2] = { 1, 2, 3 };"}, {8, "int a6[2][2] = { 1, 2 };"}, {8, "const int c7; int b7[c7];"}, {8, "int f8(int f8) { return f8; }"}, {8, "int f9() { int f9; return f9(); }"}, {8, "void f10() { return 1; }"},
        {8, "int f11() { }"}, {8, "int f12(int& r, int& r) { return r; }"}, {8, "int f13() { return nope(); }"}, {8, "int f14() { return fn(1); }"}, {8, "int f15() { return arr.f; }"}, {8, "int f16() { return r[0]; }"},
        {8, "int f17() { return i(); }"}, {8, "chan priority i < c;"}, {8, "chan priority c < c;"}, {8, "urgent int u18;"}, {8, "broadcast clock b19;"}, {8, "meta clock m20;"}, {8, "const clock k21;"},
        {8, "int[1, 0] r22; int[c, 2] r23;"}, {8, "scalar[0] s24; scalar[i] s25;"}, {8, "typedef struct { int a; } S26; S26 v26 = { 1, 2 };"}, {8, "int v27 = { 1 };"}, {8, "T_t v28[T_t] = { 1, 2, 3, 4, 5 };"},
        {8, "import \"nolib.so\" { int ext(); };"}, {8, "int f29() { for (k : int) { } return 1; }"}, {8, "int f30() { for (k : chan) { } return 1; }"}, {8, "bool q31 = forall (k : clock) true;"}, {8, "int q32 = sum (k : r) 1;"},
        {10, "int p, int p"}, {10, "int& i, clock& x, chan& c"}, {10, "const clock cx"}, {10, "int arr2[2][nope]"}, {10, "T_t T_t"},
        {12, "PA = TT(1); PA = TT(2); system PA;"}, {12, "PA = TT(1, 2); system PA;"}, {12, "PA = TT(); system PA;"}, {12, "PA = i(1); system PA;"}, {12, "system i;"}, {12, "system TT, TT;"}, {12, "PA = TT(c); system PA;"},
        {12, "PB(int z) = TT(z); PC = PB(); system PC;"}, {12, "TT = TT(1); system TT;"}, {12, "system TT < TT;"}, {12, "PA = PA(1); system PA;"},
        {1, "fn > 0"}, {3, "fn = 1, K = 2, 3 = i"}, {4, "i!"}, {11, "i : int[0,2], i : int[0,1]"}, {2, "T_t <= 3"}, {5, "c"}, {0, "r + arr"}};
    int old = vf_pick("!old_syntax", 2);
    Fixture fx(old);
    int k = vf_pick("!snippet", (int)(sizeof SNIPS / sizeof SNIPS[0]));
    const Entry& en = ENTRIES[SNIPS[k].entry];
    vf_assume(!old || (en.part != S_SELECT && en.part != S_SYNC && en.part != S_PROBABILITY));
    vf_note(en.name); vf_note(SNIPS[k].text);
    run_document_backend(fx, en, SNIPS[k].text);
    vf_reach("end");
}

// a template declared dynamic and then defined with another parameter list (longer, shorter, other names or types), through both input formats
extern "C" void harness_dynamic_templates()  /* vf: tier=quick bounds=dynamic_template_declared_with_one_of_5_parameter_lists_and_defined_with_one_of_7(longer,shorter,renamed,retyped,by_reference)_x_textual_and_XML_input_x_spawned_or_not reach=end */
{
    static const char* DECLP[] = {"", "int a", "int a, int b", "const int a", "int &a"};
    static const char* DEFP[] = {"", "int a", "int a, int b", "int b", "bool a", "int a, int b, int c", "int &a, clock &x"};
    int dp = vf_pick("!declared", 5), fp = vf_pick("!defined", 7), xml = vf_pick("!xml", 2), spawn = vf_pick("!spawned", 2);
    std::string decl = std::string("int g; dynamic DT(") + DECLP[dp] + ");";
    std::string upd = spawn ? std::string("spawn DT(") + (dp == 0 ? "" : dp == 2 ? "1, 2" : dp == 4 ? "g" : "1") + ")" : "g = 1";
    Document doc;
    vf_budget(BUDGET);
    const char* outcome = "returned";
    try {
        if (xml) {
            MModel mm; mm.gdecl = decl; mm.system = "system M;";
            MTemplate dt; dt.name = "DT"; dt.params = DEFP[fp]; dt.locs = {MLoc{"id0", "A"}};
            MTemplate mt; mt.name = "M"; mt.locs = {MLoc{"id1", "S"}}; MEdge e; e.src = 0; e.dst = 0; e.assign = upd; mt.edges = {e};
            mm.templs = {dt, mt};
            XmlDoc d = render_xml(mm);
            parse_xml(d, &doc);
        } else {
            std::string x = decl + "\nprocess DT(" + DEFP[fp] + ") { state A; init A; }\nprocess M() { state S; init S; trans S -> S { assign " + upd + "; }; }\nsystem M;\n";
            vf_note(x.c_str());
            parse_XTA(x.c_str(), &doc, true);
        }
        if (!doc.has_errors()) (void)dump_document(doc);
    } catch (std::exception&) { outcome = "std::exception"; }
    vf_budget(-1);
    vf_note(outcome); vf_notei("errors", (long)doc.get_errors().size());
    assert_invariants(doc, !strcmp(outcome, "returned"));
    vf_reach("end");
}

// nesting: the work must grow proportionally to the input, not exponentially in the nesting depth
extern "C" void harness_nesting()  /* vf: tier=quick bounds=9_nesting_constructs(parentheses,unary,call,index,inline-if,quantifier,block,struct_initialiser,binary_chain)_x_depth_1..40(symbolic);accepted_model_through_TypeChecker;instruction_budget_linear_in_depth reach=end */
{
    int kind = vf_pick("!construct", 9), depth = vf_range("!depth", 1, 40);
    if (depth > 12 && depth % 4) { vf_assume(0); }   // depths 1..12 and every fourth up to 40
    std::string open, close, core = "i";
    for (int d = 0; d < depth; d++) {
        switch (kind) {
        case 0: open += "("; close = ")" + close; break;
        case 1: open += "-"; open += (d % 2 ? " " : "("); close = std::string(d % 2 ? "" : ")") + close; break;
        case 2: open += "id1("; close = ")" + close; break;
        case 3: open += "arr[id1("; close = ") % 3]" + close; break;
        case 4: open += "(b ? "; close = " : 1)" + close; break;
        case 5: open += "(forall (k" + std::to_string(d) + " : int[0,1]) "; close = ")" + close; core = "b"; break;
        case 6: open += "{ "; close = " }" + close; core = "i = 1;"; break;
        case 7: open += "{"; close = "}" + close; core = "1"; break;
        case 8: open += "i + "; break;
        }
    }
    std::string text = "int i; bool b; int arr[3]; int id1(int a) { return a; }\n";
    if (kind == 6) text += "void blk() " + open + core + close + "\n";
    else if (kind == 7) text += "";   // nested initialiser braces need a matching type; covered by the parser-only run below
    else if (kind == 5) text += "bool q() { return " + open + core + close + "; }\n";
    else text += "int q() { return " + open + core + close + "; }\n";
    text += "process P() { state A; init A; } system P;\n";
    Document doc;
    // measured on the unchanged tree: about 30 k instructions per nesting level for the most expensive construct; a generous linear bound
    vf_budget(6 * 1000 * 1000 + (long)depth * 400 * 1000);
    bool threw = false;
    try {
        if (kind == 7) { DocumentBuilder b(doc); parse_XTA(("int z = " + open + core + close + ";").c_str(), &b, true, S_DECLARATION, "/d"); }
        else parse_XTA(text.c_str(), &doc, true);
    } catch (std::exception&) { threw = true; }
    vf_budget(-1);
    vf_notei("depth", depth); vf_notei("errors", (long)doc.get_errors().size());
    if (kind != 7) {
        if (doc.has_errors()) note_errors(doc);
        // the bison stack is finite: beyond it the parser reports "memory exhausted" - a diagnostic, which is an allowed outcome
        bool only_stack = doc.get_errors().size() == 1 && doc.get_errors()[0].msg.find("memory_exhausted") != std::string::npos;
        vf_assert(!threw && (!doc.has_errors() || only_stack), "nested-model-accepted-or-stack-limit-reported");
    }
    vf_reach("end");
}
