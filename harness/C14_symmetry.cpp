// C14: typing of commutative operators and inline-if is symmetric in its operands; reference parameters are accepted
// exactly when the types are equivalent, whichever side carries the reference / const wrapper.
// Real code: lexer, grammar, ExpressionBuilder, TypeChecker::checkExpression (PLUS, MULT, EQ, NEQ, AND, OR, BIT_*, MIN, MAX,
// INLINE_IF, FUN_CALL), areInlineIfCompatible, getInlineIfCommonType, areEquivalent, areAssignmentCompatible, areEqCompatible,
// isSameScalarType, isParameterCompatible, isModifiableLValue.
#include "common.h"

static const char* DECLS =
    "int i; int j; int[0,5] bi; int[0,5] bj; int[1,7] bk; bool b; bool b2; double d; double d2; clock x; clock y;\n"
    "typedef scalar[3] S; S s; S s2; typedef scalar[3] S3; S3 t; meta S ms; meta int mi; meta bool mb; \n"
    "typedef struct { int a; int b; } Rec; Rec r; Rec r2; typedef struct { int a; bool q; } Qrec; Qrec q;\n"
    "int arr[3]; int arr2[3]; int arr4[4]; chan c; chan c2; broadcast chan bc; const int ci = 1; const double cd = 0.5; const Rec cr = {1, 2};\n"
    "void f_int(int& p) {}\n void f_bi(int[0,5]& p) {}\n void f_bk(int[1,7]& p) {}\n void f_b(bool& p) {}\n void f_d(double& p) {}\n"
    "void f_s(S& p) {}\n void f_t(S3& p) {}\n void f_r(Rec& p) {}\n void f_q(Qrec& p) {}\n void f_arr(int& p[3]) {}\n void f_arr4(int& p[4]) {}\n"
    "void g_int(const int& p) {}\n void g_bi(const int[0,5]& p) {}\n void g_b(const bool& p) {}\n void g_d(const double& p) {}\n"
    "void g_s(const S& p) {}\n void g_r(const Rec& p) {}\n void g_arr(const int& p[3]) {}\n";

// operand pool: per operand class of the property, identifiers, constants and small expressions of that type
static const char* OPERANDS[12][4] = {
    /* 0 int          */ {"i", "mi", "i + 1", "ci"},
    /* 1 bounded int  */ {"bi", "bk", nullptr, nullptr},
    /* 2 bool         */ {"b", "true", "i < j", "mb"},
    /* 3 double       */ {"d", "2.5", "d * 2.0", "cd"},
    /* 4 clock        */ {"x", "x + 1", nullptr, nullptr},
    /* 5 clock diff   */ {"x - y", nullptr, nullptr, nullptr},
    /* 6 scalar       */ {"s", "t", "ms", nullptr},
    /* 7 struct       */ {"r", "q", "cr", nullptr},
    /* 8 array        */ {"arr", "arr4", nullptr, nullptr},
    /* 9 channel      */ {"c", "bc", nullptr, nullptr},
    /* 10 string      */ {"\"str\"", nullptr, nullptr, nullptr},
    /* 11 clock constraint */ {"x < 5", "x == 2", "x - y == 1", "x == 2 && y >= 1"}};
static const int NCLS = 12;
static int nforms(int c) { int n = 0; while (n < 4 && OPERANDS[c][n]) n++; return n; }
static const char* COMM[] = {"+", "*", "==", "!=", "&&", "||", "&", "|", "^", "<?", ">?"};
static const int NCOMM = sizeof COMM / sizeof COMM[0];

// kind of a type as clients see it: constness / reference / typedef-label / range wrappers removed
static int base_kind(type_t t)
{
    while (!t.unknown() && (t.get_kind() == CONSTANT || t.get_kind() == SYSTEM_META || t.get_kind() == REF || t.get_kind() == LABEL || t.get_kind() == RANGE || t.get_kind() == TYPEDEF)) t = t[0];
    return t.unknown() ? -1 : (int)t.get_kind();
}

struct Verdict { bool ok; int kind; };
static Verdict check(Ctx& cx, const std::string& text)
{
    size_t n0 = cx.nerr();
    expression_t e = cx.expr(text.c_str());
    if (cx.nerr() != n0 || e.empty()) return {false, -2};   // rejected by the parser/builder
    TypeChecker tc{cx.doc};
    bool r = tc.checkExpression(e);
    bool ok = r && cx.nerr() == n0;
    return {ok, ok ? base_kind(e.get_type()) : -1};
}

extern "C" void harness_commutative()  /* vf: bounds=33_operand_forms_in_12_classes(incl._clock_constraints_of_invariant_and_guard_kind),unordered_pairs,x_11_commutative_operators;both_orders_through_lexer,grammar,builder,checkExpression */
{
    Ctx cx;
    vf_assert(cx.declare(DECLS) == 0, "declarations-accepted");
    int op = vf_pick("!op", NCOMM);
    int ca = vf_pick("!class_a", NCLS), fa = vf_pick("!form_a", nforms(ca)), cb = vf_pick("!class_b", NCLS), fb = vf_pick("!form_b", nforms(cb));
    vf_assume(ca < cb || (ca == cb && fa < fb));  // unordered pairs; identical operands are trivially symmetric
    std::string A = std::string("(") + OPERANDS[ca][fa] + ")", B = std::string("(") + OPERANDS[cb][fb] + ")";
    Verdict v1 = check(cx, A + " " + COMM[op] + " " + B);
    Verdict v2 = check(cx, B + " " + COMM[op] + " " + A);
    vf_notei("ok1", v1.ok); vf_notei("ok2", v2.ok); vf_notei("k1", v1.kind); vf_notei("k2", v2.kind);
    vf_assert(v1.ok == v2.ok, "commutative-verdict-symmetric");
    vf_assert(!v1.ok || !v2.ok || v1.kind == v2.kind, "commutative-kind-symmetric");
    vf_reach("end");
}

extern "C" void harness_inline_if()  /* vf: bounds=33_operand_forms_in_12_classes(incl._clock_constraints_of_invariant_and_guard_kind),unordered_pairs;c?a:b_vs_!c?b:a */
{
    Ctx cx;
    vf_assert(cx.declare(DECLS) == 0, "declarations-accepted");
    int ca = vf_pick("!class_a", NCLS), fa = vf_pick("!form_a", nforms(ca)), cb = vf_pick("!class_b", NCLS), fb = vf_pick("!form_b", nforms(cb));
    vf_assume(ca < cb || (ca == cb && fa < fb));  // unordered pairs; identical operands are trivially symmetric
    std::string A = std::string("(") + OPERANDS[ca][fa] + ")", B = std::string("(") + OPERANDS[cb][fb] + ")";
    Verdict v1 = check(cx, "b2 ? " + A + " : " + B);
    Verdict v2 = check(cx, "!b2 ? " + B + " : " + A);
    vf_notei("ok1", v1.ok); vf_notei("ok2", v2.ok); vf_notei("k1", v1.kind); vf_notei("k2", v2.kind);
    vf_assert(v1.ok == v2.ok, "inline-if-verdict-symmetric");
    vf_assert(!v1.ok || !v2.ok || v1.kind == v2.kind, "inline-if-kind-symmetric");
    vf_reach("end");
}

// reference parameters: f_T takes `T&`, g_T takes `const T&`; variables v of each type, const variables of some
struct RefT { const char* f; const char* g; const char* var; const char* cvar; int cls; };
static const RefT REFS[] = {
    {"f_int", "g_int", "i", "ci", 0}, {"f_bi", "g_bi", "bi", nullptr, 1}, {"f_bk", nullptr, "bk", nullptr, 2}, {"f_b", "g_b", "b", nullptr, 3},
    {"f_d", "g_d", "d", "cd", 4}, {"f_s", "g_s", "s", nullptr, 5}, {"f_t", nullptr, "t", nullptr, 6}, {"f_r", "g_r", "r", "cr", 7},
    {"f_q", nullptr, "q", nullptr, 8}, {"f_arr", "g_arr", "arr", nullptr, 9}, {"f_arr4", nullptr, "arr4", nullptr, 10}};
static const int NREF = sizeof REFS / sizeof REFS[0];

extern "C" void harness_ref_param()  /* vf: bounds=11_parameter_types_x_11_argument_types;T&_and_const_T&;mutable_and_const_arguments */
{
    Ctx cx;
    vf_assert(cx.declare(DECLS) == 0, "declarations-accepted");
    int p = vf_pick("!param", NREF), a = vf_pick("!arg", NREF);
    auto call = [&](const char* f, const char* v) { return check(cx, std::string(f) + "(" + v + ")").ok; };
    bool pa = call(REFS[p].f, REFS[a].var), ap = call(REFS[a].f, REFS[p].var);
    vf_notei("pa", pa); vf_notei("ap", ap);
    // whichever side carries the reference: T1& <- T2 variable accepted iff T2& <- T1 variable accepted
    vf_assert(pa == ap, "ref-param-symmetric");
    if (p == a) {
        vf_assert(pa, "ref-param-same-type-accepted");
        if (REFS[p].g) vf_assert(call(REFS[p].g, REFS[p].var), "const-ref-param-same-type-accepted");
        if (REFS[p].g && REFS[p].cvar) vf_assert(call(REFS[p].g, REFS[p].cvar), "const-ref-param-const-arg-accepted");
    }
    // the const wrapper on the parameter does not change which argument types are equivalent (for lvalue arguments of non-arithmetic types;
    // arithmetic types convert by value, which the property does not constrain)
    if (REFS[p].g && REFS[p].cls >= 5 && REFS[a].cls >= 5) vf_assert(call(REFS[p].g, REFS[a].var) == pa, "const-ref-same-equivalence");
    // for a modifiable l-value argument the const wrapper changes nothing either, whatever the type - except that `const int` carries no range
    // (so `const int&` is equivalent to every integer type, while `int&` has the default range)
    if (REFS[p].g && REFS[p].cls != 0) { bool ga = call(REFS[p].g, REFS[a].var); vf_notei("ga", ga); vf_assert(ga == pa, "const-ref-lvalue-argument-follows-equivalence"); }
    vf_reach("end");
}

// inline-if where an l-value is required (assignment target, increment, argument of a non-const reference parameter): accepted or rejected the
// same way whichever branch comes first
extern "C" void harness_inline_if_lvalue()  /* vf: bounds=pairs_from_10_int-typed_operands(mutable_and_constant_variables,array_elements,struct_fields,a_literal,an_arithmetic_expression)_x_6_uses(=,+=,post/pre-increment,reference_argument,plain_value);c?a:b_vs_!c?b:a reach=end */
{
    static const char* OPS[] = {"i", "j", "ci", "arr[0]", "arr2[i]", "r.a", "cr.a", "bi", "3", "i + 1"};
    static const int NOPS = 10;
    Ctx cx;
    vf_assert(cx.declare(DECLS) == 0, "declarations-accepted");
    int a = vf_pick("!a", NOPS), b = vf_pick("!b", NOPS), use = vf_pick("!use", 6);
    std::string fwd = std::string("(b ? ") + OPS[a] + " : " + OPS[b] + ")", rev = std::string("(!b ? ") + OPS[b] + " : " + OPS[a] + ")";
    auto form = [&](const std::string& x) {
        switch (use) {
        case 0: return x + " = 2";
        case 1: return x + " += 1";
        case 2: return x + "++";
        case 3: return "--" + x;
        case 4: return "f_int(" + x + ")";
        default: return x + " + 1";
        }
    };
    Verdict v1 = check(cx, form(fwd)), v2 = check(cx, form(rev));
    vf_note(form(fwd).c_str()); vf_notei("forward_accepted", v1.ok); vf_notei("swapped_accepted", v2.ok);
    vf_assert(v1.ok == v2.ok, "inline-if-lvalue-verdict-symmetric");
    if (v1.ok && v2.ok) vf_assert(v1.kind == v2.kind, "inline-if-lvalue-kind-symmetric");
    // the oracle for the two clear cases: both branches mutable l-values of the same type => accepted; a constant or an r-value branch => no l-value
    bool mut_a = a == 0 || a == 1 || a == 3 || a == 4 || a == 5, mut_b = b == 0 || b == 1 || b == 3 || b == 4 || b == 5;
    if (use <= 4 && mut_a && mut_b) vf_assert(v1.ok, "inline-if-over-two-mutable-lvalues-is-an-lvalue");
    bool bad_a = a == 2 || a == 6 || a == 8 || a == 9, bad_b = b == 2 || b == 6 || b == 8 || b == 9;
    if (use <= 4 && (bad_a || bad_b)) vf_assert(!v1.ok && !v2.ok, "inline-if-with-a-constant-or-rvalue-branch-is-no-lvalue");
    vf_reach("end");
}
