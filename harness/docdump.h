// Canonical dump of a Document (what a client can observe through the public members) and the structural invariants of C08.
#ifndef VF_DOCDUMP_H
#define VF_DOCDUMP_H
#include "common.h"
#include "utap/statement.h"

static inline std::string xs(const expression_t& e) { return e.empty() ? std::string("-") : e.str(); }
static inline std::string tstr(const type_t& t) { return t.unknown() ? std::string("?") : t.str(); }
static inline bool is_builtin_name(const std::string& n)
{
    static const char* B[] = {"INT8_MIN", "INT8_MAX", "UINT8_MAX", "INT16_MIN", "INT16_MAX", "UINT16_MAX", "INT32_MIN", "INT32_MAX", "int8_t", "uint8_t", "int16_t", "uint16_t", "int32_t",
                              "FLT_MIN", "FLT_MAX", "DBL_MIN", "DBL_MAX", "M_PI", "M_PI_2", "M_PI_4", "M_E", "M_LOG2E", "M_LOG10E", "M_LN2", "M_LN10", "M_1_PI", "M_2_PI", "M_2_SQRTPI", "M_SQRT2", "M_SQRT1_2"};
    for (auto b : B) if (n == b) return true;
    return false;
}
struct DumpOpt { bool positions = false; bool types = true; bool bodies = true; bool bindings = true; };
// what every identifier of an expression is bound to: name and type of the symbol, in tree order (two symbols of the same name print alike, their
// types usually do not: a global int and a select / quantifier binder of the same name differ here)
static inline void bind_sig(std::string& o, const expression_t& e)
{
    if (e.empty()) return;
    if (e.get_kind() == IDENTIFIER) { symbol_t y = e.get_symbol(); if (y == symbol_t()) o += " ?"; else o += " " + y.get_name() + ":" + tstr(y.get_type()); return; }
    for (size_t i = 0; i < e.get_size(); i++) bind_sig(o, e[i]);
}
static inline std::string xsb(const expression_t& e, const DumpOpt& opt) { std::string o = xs(e); if (opt.bindings && !e.empty()) { o += " <"; bind_sig(o, e); o += " >"; } return o; }

static inline void dump_decls(std::string& o, declarations_t& d, const std::string& pfx, const DumpOpt& opt)
{
    for (size_t i = 0; i < d.frame.get_size(); i++) {
        symbol_t s = d.frame[i];
        if (s.get_type().get_kind() == TYPEDEF && !is_builtin_name(s.get_name())) o += pfx + "typedef " + s.get_name() + (opt.types ? " : " + tstr(s.get_type()) : "") + "\n";
    }
    for (auto& v : d.variables) {
        if (is_builtin_name(v.uid.get_name())) continue;
        o += pfx + "var " + v.uid.get_name() + (opt.types ? " : " + tstr(v.uid.get_type()) : "") + " = " + xs(v.init) + "\n";
    }
    for (auto& f : d.functions) {
        o += pfx + "fun " + f.uid.get_name() + (opt.types ? " : " + tstr(f.uid.get_type()) : "") + "\n";
        for (auto& v : f.variables) o += pfx + "  local " + v.uid.get_name() + (opt.types ? " : " + tstr(v.uid.get_type()) : "") + " = " + xs(v.init) + "\n";
        if (opt.bodies && f.body) o += pfx + "  body " + f.body->str("") + "\n";
    }
}
static inline std::string end_name(location_t* l, branchpoint_t* b) { return l ? "L:" + l->uid.get_name() : b ? "B:" + b->uid.get_name() : std::string("NONE"); }
static inline std::string dump_edge(edge_t& e, const DumpOpt& opt)
{
    std::string o = "edge#" + std::to_string(e.nr) + " " + end_name(e.src, e.srcb) + " -> " + end_name(e.dst, e.dstb) + (e.control ? " ctrl" : " unctrl") + " select[";
    for (size_t k = 0; k < e.select.get_size(); k++) o += (k ? "," : "") + e.select[k].get_name() + (opt.types ? ":" + tstr(e.select[k].get_type()) : "");
    o += "] guard{" + xsb(e.guard, opt) + "} sync{" + xsb(e.sync, opt) + "} assign{" + xsb(e.assign, opt) + "} prob{" + xsb(e.prob, opt) + "}";
    return o;
}
static inline std::string dump_location(location_t& l)
{
    std::string fl = l.uid.get_type().is(URGENT) ? " urgent" : l.uid.get_type().is(COMMITTED) ? " committed" : "";
    DumpOpt opt;
    return "loc#" + std::to_string(l.nr) + " " + l.uid.get_name() + fl + " inv{" + xsb(l.invariant, opt) + "} rate{" + xsb(l.exp_rate, opt) + "}";
}
static inline void dump_instance(std::string& o, instance_t& p, const char* what, const DumpOpt& opt)
{
    o += std::string(what) + " " + p.uid.get_name() + " of " + (p.templ ? p.templ->uid.get_name() : "?") + " params[";
    for (size_t k = 0; k < p.parameters.get_size(); k++) o += (k ? "," : "") + p.parameters[k].get_name() + (opt.types ? ":" + tstr(p.parameters[k].get_type()) : "");
    o += "] unbound=" + std::to_string(p.unbound) + " args=" + std::to_string(p.arguments) + " map{";
    for (size_t k = 0; k < p.parameters.get_size(); k++) { auto it = p.mapping.find(p.parameters[k]); if (it != p.mapping.end()) o += p.parameters[k].get_name() + "=" + xs(it->second) + ";"; }
    o += "}\n";
}
static inline void dump_template(std::string& o, template_t& t, const DumpOpt& opt)
{
    o += "template " + t.uid.get_name() + " params[";
    for (size_t k = 0; k < t.parameters.get_size(); k++) o += (k ? "," : "") + t.parameters[k].get_name() + (opt.types ? ":" + tstr(t.parameters[k].get_type()) : "");
    o += "] init=" + (t.init == symbol_t() ? std::string("NONE") : t.init.get_name()) + (t.is_instantiated ? " instantiated" : "") + "\n";
    dump_decls(o, t, "  ", opt);
    for (auto& l : t.locations) o += "  " + dump_location(l) + "\n";
    for (auto& b : t.branchpoints) o += "  branchpoint " + b.uid.get_name() + "\n";
    for (auto& e : t.edges) o += "  " + dump_edge(e, opt) + "\n";
}
static inline std::string dump_document(Document& doc, const DumpOpt& opt = DumpOpt())
{
    std::string o;
    dump_decls(o, doc.get_globals(), "", opt);
    for (auto& t : doc.get_templates()) dump_template(o, t, opt);
    for (auto& p : doc.get_processes()) dump_instance(o, p, "process", opt);
    for (auto& c : doc.get_chan_priorities()) o += "chanprio " + c.str() + "\n";
    return o;
}
static inline std::string diag_pos(const UTAP::error_t& e)
{
    // path, start line/column, end line/column, as error_t::str() derives them
    return " @" + (e.start.path ? *e.start.path : std::string()) + ":" + std::to_string(e.start.line) + ":" + std::to_string((long)e.position.start - (long)e.start.position) + "-" +
           std::to_string(e.end.line) + ":" + std::to_string((long)e.position.end - (long)e.end.position);
}
static inline std::string dump_diagnostics(Document& doc, bool with_positions = false)
{
    // multiset of messages (sorted), positions optional
    std::vector<std::string> m;
    for (auto& e : doc.get_errors()) m.push_back("E " + e.msg + (with_positions ? diag_pos(e) : ""));
    for (auto& e : doc.get_warnings()) m.push_back("W " + e.msg + (with_positions ? diag_pos(e) : ""));
    std::sort(m.begin(), m.end());
    std::string o;
    for (auto& s : m) o += s + "\n";
    return o;
}
static inline std::string dump_methods(Document& doc)
{
    auto s = doc.get_supported_methods();
    return std::string("symbolic=") + (s.symbolic ? "1" : "0") + " stochastic=" + (s.stochastic ? "1" : "0") + " concrete=" + (s.concrete ? "1" : "0");
}
// whole-word replacement (identifier renaming applied to a dump or to model text)
static inline std::string rename_word(const std::string& text, const std::string& from, const std::string& to)
{
    auto idc = [](char c) { return isalnum((unsigned char)c) || c == '_' || c == '$' || c == '#'; };
    std::string o;
    for (size_t i = 0; i < text.size();) {
        if (text.compare(i, from.size(), from) == 0 && (i == 0 || !idc(text[i - 1])) && (i + from.size() >= text.size() || !idc(text[i + from.size()]))) { o += to; i += from.size(); }
        else o += text[i++];
    }
    return o;
}

// ---- C08: structural invariants clients rely on; returns the list of violated ones (empty = all hold)
static inline void check_vars(std::vector<std::string>& bad, std::list<variable_t>& vs, const std::string& where)
{
    for (auto& v : vs) if (v.uid.get_data() != &v) bad.push_back("variable " + where + v.uid.get_name() + " is not the user object of its symbol");
}
static inline void check_instance(std::vector<std::string>& bad, instance_t& p, const std::string& what, bool symbol_points_here = true)
{
    std::string n = what + " " + p.uid.get_name();
    if (symbol_points_here && p.uid.get_data() != &p) bad.push_back(n + " is not the user object of its symbol");
    if (p.unbound > p.parameters.get_size()) { bad.push_back(n + ": more unbound parameters than parameters"); return; }
    size_t mapped = 0;
    for (size_t k = 0; k < p.parameters.get_size(); k++) {
        bool in_map = p.mapping.find(p.parameters[k]) != p.mapping.end();
        if (in_map) mapped++;
        if (k < p.unbound && in_map) bad.push_back(n + ": unbound parameter " + p.parameters[k].get_name() + " has an argument");
        if (k >= p.unbound && !in_map) bad.push_back(n + ": bound parameter " + p.parameters[k].get_name() + " has no argument");
    }
    if (p.mapping.size() != mapped) bad.push_back(n + ": mapping has entries for symbols that are not its parameters");
    if (p.mapping.size() != p.parameters.get_size() - p.unbound) bad.push_back(n + ": mapping size differs from the number of bound parameters");
    type_t ty = p.uid.get_type();
    if (!ty.unknown() && (ty.get_kind() == INSTANCE || ty.get_kind() == PROCESS_SET || ty.get_kind() == LSC_INSTANCE) && ty.size() != p.unbound) bad.push_back(n + ": type arity differs from the number of unbound parameters");
}
// from the symbols to the objects: whatever user object a symbol of a declaration frame carries is one of the objects listed somewhere in the
// document (a variable, function, location, branchpoint, template, instance or process), and that object's own symbol is this very symbol
struct ListedObjects { std::vector<std::pair<void*, symbol_t>> all; void add(void* p, const symbol_t& uid) { all.push_back({p, uid}); } };
static inline void list_decls(ListedObjects& lo, declarations_t& d)
{
    for (auto& v : d.variables) lo.add(&v, v.uid);
    for (auto& f : d.functions) { lo.add(&f, f.uid); for (auto& v : f.variables) lo.add(&v, v.uid); }
}
static inline ListedObjects list_objects(Document& doc)
{
    ListedObjects lo;
    list_decls(lo, doc.get_globals());
    for (auto& t : doc.get_templates()) {
        lo.add(static_cast<instance_t*>(&t), t.uid);
        list_decls(lo, t);
        for (auto& l : t.locations) lo.add(&l, l.uid);
        for (auto& b : t.branchpoints) lo.add(&b, b.uid);
    }
    for (auto* x : doc.get_dynamic_templates()) lo.add(static_cast<instance_t*>(x), x->uid);
    for (auto& x : doc.instances) lo.add(&x, x.uid);
    for (auto& x : doc.lsc_instances) lo.add(&x, x.uid);
    for (auto& x : doc.get_processes()) lo.add(&x, x.uid);
    return lo;
}
static inline void check_frame(std::vector<std::string>& bad, const ListedObjects& lo, frame_t fr, bool lsc, const std::string& where)
{
    for (size_t i = 0; i < fr.get_size(); i++) {
        symbol_t y = fr[i];
        void* p = y.get_data();
        if (p == nullptr) continue;
        bool found = false, own = false;
        for (auto& o : lo.all) if (o.first == p) { found = true; if (o.second == y) own = true; }
        if (!found) { if (!lsc) bad.push_back("symbol " + where + y.get_name() + " carries a user object that is listed nowhere in the document"); }
        else if (!own) bad.push_back("symbol " + where + y.get_name() + " carries the user object of another symbol");
    }
}
static inline std::vector<std::string> check_document(Document& doc, bool returned_normally)
{
    std::vector<std::string> bad;
    ListedObjects lo = list_objects(doc);
    check_frame(bad, lo, doc.get_globals().frame, false, "");
    for (auto& f : doc.get_globals().functions) if (f.body) check_frame(bad, lo, f.body->get_frame(), false, f.uid.get_name() + "::");
    for (auto& t : doc.get_templates()) {
        check_frame(bad, lo, t.frame, !t.is_TA, t.uid.get_name() + ".");
        for (auto& f : t.functions) if (f.body) check_frame(bad, lo, f.body->get_frame(), !t.is_TA, t.uid.get_name() + "." + f.uid.get_name() + "::");
    }
    check_vars(bad, doc.get_globals().variables, "");
    for (auto& f : doc.get_globals().functions) { if (f.uid.get_data() != &f) bad.push_back("function " + f.uid.get_name() + " is not the user object of its symbol"); check_vars(bad, f.variables, f.uid.get_name() + "::"); }
    for (auto& t : doc.get_templates()) {
        std::string tn = t.uid.get_name();
        if (t.uid.get_data() != static_cast<instance_t*>(&t)) bad.push_back("template " + tn + " is not the user object of its symbol");
        check_instance(bad, t, "template", false);
        check_vars(bad, t.variables, tn + ".");
        for (auto& f : t.functions) { if (f.uid.get_data() != &f) bad.push_back("function " + tn + "." + f.uid.get_name() + " is not the user object of its symbol"); check_vars(bad, f.variables, tn + "." + f.uid.get_name() + "::"); }
        int k = 0;
        for (auto& l : t.locations) {
            if (l.uid.get_data() != &l) bad.push_back("location " + tn + "." + l.uid.get_name() + " is not the user object of its symbol");
            if (l.nr != k) bad.push_back("location " + tn + "." + l.uid.get_name() + " has number " + std::to_string(l.nr) + " at position " + std::to_string(k));
            k++;
        }
        for (auto& b : t.branchpoints) if (b.uid.get_data() != &b) bad.push_back("branchpoint " + tn + "." + b.uid.get_name() + " is not the user object of its symbol");
        k = 0;
        for (auto& e : t.edges) {
            std::string en = "edge " + tn + "#" + std::to_string(k);
            if (e.nr != k) bad.push_back(en + " has number " + std::to_string(e.nr));
            if ((e.src != nullptr) + (e.srcb != nullptr) != 1) bad.push_back(en + " does not have exactly one source");
            if ((e.dst != nullptr) + (e.dstb != nullptr) != 1) bad.push_back(en + " does not have exactly one target");
            auto own_loc = [&](location_t* l) { for (auto& x : t.locations) if (&x == l) return true; return false; };
            auto own_bp = [&](branchpoint_t* b) { for (auto& x : t.branchpoints) if (&x == b) return true; return false; };
            if (e.src && !own_loc(e.src)) bad.push_back(en + ": source location is not a location of its template");
            if (e.dst && !own_loc(e.dst)) bad.push_back(en + ": target location is not a location of its template");
            if (e.srcb && !own_bp(e.srcb)) bad.push_back(en + ": source branchpoint is not a branchpoint of its template");
            if (e.dstb && !own_bp(e.dstb)) bad.push_back(en + ": target branchpoint is not a branchpoint of its template");
            k++;
        }
        if (returned_normally && !doc.has_errors() && t.is_TA) {
            bool found = false;
            for (auto& l : t.locations) if (l.uid == t.init) found = true;
            if (!found) bad.push_back("template " + tn + ": no initial location among its own locations in an accepted document");
        }
    }
    for (auto& i : doc.instances) check_instance(bad, i, "instance");
    for (auto& p : doc.get_processes()) check_instance(bad, p, "process");
    return bad;
}
static inline void assert_invariants(Document& doc, bool returned_normally, const char* id = "document-structural-invariants")
{
    auto bad = check_document(doc, returned_normally);
    for (auto& b : bad) vf_note(("INVARIANT VIOLATED: " + b).c_str());
    vf_assert(bad.empty(), id);
}
#endif
