// libxml2 models for the harnesses (DESIGN.md 3.3) and an abstract UPPAAL model that can be rendered as an XML node stream and as XTA text.
//  * IR build (engine): the xmlTextReader* / xmlTextWriter* entry points are defined here with their documented contract over a
//    harness-provided node array / event log; the real XMLReader / XMLWriter of the library run on top of them.
//  * native build (replay, differential): the same node array is rendered to XML text and the real libxml2 is used.
#ifndef VF_XMLMODEL_H
#define VF_XMLMODEL_H
#include "docdump.h"
#include <libxml/xmlreader.h>
#include <libxml/xmlwriter.h>

struct VAttr { const char* name; std::string value; };
struct VNode { int type; const char* name; bool empty; std::vector<VAttr> attrs; std::string text; bool cdata = false; };   // type: 1 element, 15 end element, 3 text (cdata: written as a <![CDATA[ ]]> section)
struct XmlDoc {
    std::vector<VNode> nodes;
    std::vector<const char*> open;
    XmlDoc& el(const char* n, std::vector<VAttr> a = {}) { nodes.push_back(VNode{1, n, false, std::move(a), ""}); open.push_back(n); return *this; }
    XmlDoc& empty(const char* n, std::vector<VAttr> a = {}) { nodes.push_back(VNode{1, n, true, std::move(a), ""}); return *this; }
    XmlDoc& text(const std::string& t, bool cdata = false) { if (!t.empty()) nodes.push_back(VNode{3, "#text", false, {}, t, cdata}); return *this; }
    XmlDoc& end() { nodes.push_back(VNode{15, open.back(), false, {}, ""}); open.pop_back(); return *this; }
    XmlDoc& leaf(const char* n, const std::string& t, std::vector<VAttr> a = {}, bool cdata = false) { el(n, std::move(a)); text(t, cdata); return end(); }
    static std::string esc(const std::string& s)
    {
        std::string o;
        for (char c : s) { if (c == '&') o += "&amp;"; else if (c == '<') o += "&lt;"; else if (c == '>') o += "&gt;"; else if (c == '"') o += "&quot;"; else if (c == '\r') o += "&#13;"; else o += c; }   // a literal CR would be normalised away by libxml2
        return o;
    }
    std::string render() const
    {
        std::string o = "<?xml version=\"1.0\" encoding=\"utf-8\"?>";
        for (auto& n : nodes) {
            if (n.type == 3) o += n.cdata ? "<![CDATA[" + n.text + "]]>" : esc(n.text);
            else if (n.type == 15) o += std::string("</") + n.name + ">";
            else { o += std::string("<") + n.name; for (auto& a : n.attrs) o += std::string(" ") + a.name + "=\"" + esc(a.value) + "\""; o += n.empty ? "/>" : ">"; }
        }
        return o;
    }
};

#ifndef VF_NATIVE
// ---------------------------------------------------------------- reader model (IR build only)
static XmlDoc* vf_xml_doc = nullptr;
static long vf_xml_cur = -1;
static int vf_xml_eof_after = -1;   // >= 0: the stream ends prematurely after that many nodes (xmlTextReaderRead returns 0)
static void vf_xml_free(void* p) { free(p); }
xmlFreeFunc xmlFree = vf_xml_free;
static char* vf_xml_dup(const std::string& s) { char* r = (char*)malloc(s.size() + 1); memcpy(r, s.c_str(), s.size() + 1); return r; }
extern "C" {
static int vf_xml_options = 0;   // the parser options the code under test asks for: XML_PARSE_NOCDATA turns CDATA sections into text nodes
xmlTextReaderPtr xmlReaderForMemory(const char*, int, const char*, const char*, int options) { vf_xml_cur = -1; vf_xml_options = options; return (xmlTextReaderPtr)vf_xml_doc; }
void xmlFreeTextReader(xmlTextReaderPtr) {}
int xmlTextReaderRead(xmlTextReaderPtr)
{
    long n = (long)vf_xml_doc->nodes.size();
    if (vf_xml_eof_after >= 0 && vf_xml_eof_after < n) n = vf_xml_eof_after;
    if (vf_xml_cur + 1 >= n) return 0;
    vf_xml_cur++;
    return 1;
}
int xmlTextReaderNodeType(xmlTextReaderPtr)
{
    if (vf_xml_cur < 0) return 0;
    const VNode& n = vf_xml_doc->nodes[vf_xml_cur];
    if (n.type == 3 && n.cdata && !(vf_xml_options & XML_PARSE_NOCDATA)) return 4;   // XML_READER_TYPE_CDATA
    return n.type;
}
const xmlChar* xmlTextReaderConstLocalName(xmlTextReaderPtr) { return (const xmlChar*)(vf_xml_cur < 0 ? "" : vf_xml_doc->nodes[vf_xml_cur].name); }
int xmlTextReaderIsEmptyElement(xmlTextReaderPtr) { return vf_xml_cur < 0 ? 0 : (vf_xml_doc->nodes[vf_xml_cur].empty ? 1 : 0); }
const xmlChar* xmlTextReaderConstValue(xmlTextReaderPtr) { return (vf_xml_cur < 0 || vf_xml_doc->nodes[vf_xml_cur].type != 3) ? nullptr : (const xmlChar*)vf_xml_doc->nodes[vf_xml_cur].text.c_str(); }
xmlChar* xmlTextReaderValue(xmlTextReaderPtr) { return (vf_xml_cur < 0 || vf_xml_doc->nodes[vf_xml_cur].type != 3) ? nullptr : (xmlChar*)vf_xml_dup(vf_xml_doc->nodes[vf_xml_cur].text); }
xmlChar* xmlTextReaderGetAttribute(xmlTextReaderPtr, const xmlChar* name)
{
    if (vf_xml_cur < 0) return nullptr;
    for (auto& a : vf_xml_doc->nodes[vf_xml_cur].attrs) if (strcmp(a.name, (const char*)name) == 0) return (xmlChar*)vf_xml_dup(a.value);
    return nullptr;   // absent attribute: NULL, as libxml2 documents
}
}
#endif

int32_t parse_XML_buffer(const char* buffer, ParserBuilder* pb, bool newxta);
// parse the node stream with the real XMLReader into the given builder / document
static inline int parse_xml(XmlDoc& d, ParserBuilder* pb, bool newxta = true)
{
#ifdef VF_NATIVE
    std::string t = d.render();
    return parse_XML_buffer(t.c_str(), pb, newxta);
#else
    vf_xml_doc = &d;
    return parse_XML_buffer("", pb, newxta);
#endif
}
static inline int parse_xml(XmlDoc& d, Document* doc, bool newxta = true)
{
#ifdef VF_NATIVE
    std::string t = d.render();
    return parse_XML_buffer(t.c_str(), doc, newxta, {});
#else
    vf_xml_doc = &d;
    return parse_XML_buffer("", doc, newxta, {});
#endif
}

// ---------------------------------------------------------------- abstract model
struct MLoc { std::string id, name, inv, rate; bool urgent = false, committed = false; std::string comment; /* a <label kind="comments"> after the other labels (XML only) */ };
struct MEdge { int src = 0, dst = 0; bool src_bp = false, dst_bp = false; int ctrl = 0 /* 0 attribute absent, 1 "true", 2 "false" */; std::string select, guard, sync, assign, prob, comment; bool empty_guard_label = false;   /* a guard label element without text */
    std::string dst_ref_override, dst_name_override;   /* faults: XML target ref / XTA target name given verbatim */ };
struct MTemplate { std::string name, params, decls; std::vector<MLoc> locs; std::vector<std::string> bps; int init = 0; std::vector<MEdge> edges; std::string init_ref_override, init_name_override; /* faults: what init names instead of a location */ };
struct MModel { std::string gdecl; std::vector<MTemplate> templs; std::string system; };

static inline std::string loc_name(const MLoc& l) { return l.name.empty() ? "_" + l.id : l.name; }
static inline bool edge_control(const MEdge& e) { return e.ctrl != 2; }
// white space around the identifier inside <name> elements (hand-formatted or pretty-printed XML); the reader must trim it
static std::string xml_name_pad_left, xml_name_pad_right;
// which text blocks are written as CDATA sections instead of escaped text: 1 labels, 2 declarations / parameters / system
static int xml_cdata_mask = 0;
// elements without content written in the self-closing form (<location id=".."/>, <label kind="guard"/>) instead of start and end tag
static bool xml_selfclose = false;
static inline XmlDoc render_xml(const MModel& m)
{
    auto padded = [&](const std::string& n) { return xml_name_pad_left + n + xml_name_pad_right; };
    XmlDoc d;
    d.el("nta");
    d.leaf("declaration", m.gdecl, {}, xml_cdata_mask & 2);
    for (auto& t : m.templs) {
        d.el("template");
        d.leaf("name", padded(t.name));
        if (!t.params.empty()) d.leaf("parameter", t.params, {}, xml_cdata_mask & 2);
        d.leaf("declaration", t.decls, {}, xml_cdata_mask & 2);
        for (auto& l : t.locs) {
            if (xml_selfclose && l.name.empty() && l.inv.empty() && l.rate.empty() && l.comment.empty() && !l.urgent && !l.committed) { d.empty("location", {{"id", l.id}}); continue; }
            d.el("location", {{"id", l.id}});
            if (!l.name.empty()) d.leaf("name", padded(l.name));
            if (!l.inv.empty()) d.leaf("label", l.inv, {{"kind", "invariant"}}, xml_cdata_mask & 1);
            if (!l.rate.empty()) d.leaf("label", l.rate, {{"kind", "exponentialrate"}}, xml_cdata_mask & 1);
            if (!l.comment.empty()) d.leaf("label", l.comment, {{"kind", "comments"}});
            if (l.urgent) d.empty("urgent");
            if (l.committed) d.empty("committed");
            d.end();
        }
        for (auto& b : t.bps) d.empty("branchpoint", {{"id", b}});
        d.empty("init", {{"ref", !t.init_ref_override.empty() ? t.init_ref_override : t.locs[t.init].id}});
        for (auto& e : t.edges) {
            std::vector<VAttr> a;
            if (e.ctrl == 1) a.push_back({"controllable", "true"}); else if (e.ctrl == 2) a.push_back({"controllable", "false"});
            d.el("transition", a);
            d.empty("source", {{"ref", e.src_bp ? t.bps[e.src] : t.locs[e.src].id}});
            d.empty("target", {{"ref", !e.dst_ref_override.empty() ? e.dst_ref_override : e.dst_bp ? t.bps[e.dst] : t.locs[e.dst].id}});
            if (!e.select.empty()) d.leaf("label", e.select, {{"kind", "select"}}, xml_cdata_mask & 1);
            if (!e.guard.empty()) d.leaf("label", e.guard, {{"kind", "guard"}}, xml_cdata_mask & 1);
            else if (e.empty_guard_label) { if (xml_selfclose) d.empty("label", {{"kind", "guard"}}); else d.el("label", {{"kind", "guard"}}).end(); }
            if (!e.sync.empty()) d.leaf("label", e.sync, {{"kind", "synchronisation"}}, xml_cdata_mask & 1);
            if (!e.assign.empty()) d.leaf("label", e.assign, {{"kind", "assignment"}}, xml_cdata_mask & 1);
            if (!e.prob.empty()) d.leaf("label", e.prob, {{"kind", "probability"}}, xml_cdata_mask & 1);
            if (!e.comment.empty()) d.leaf("label", e.comment, {{"kind", "comments"}});
            d.end();
        }
        d.end();
    }
    d.leaf("system", m.system, {}, xml_cdata_mask & 2);
    d.end();
    return d;
}
// the same model as whole-file XTA text (only what both formats can express: named locations)
static inline std::string render_xta(const MModel& m, bool chain = false)
{
    std::string s = m.gdecl + "\n";
    for (auto& t : m.templs) {
        s += "process " + t.name + "(" + t.params + ") {\n" + t.decls + "\n state ";
        for (size_t i = 0; i < t.locs.size(); i++) {
            auto& l = t.locs[i];
            s += (i ? ", " : "") + loc_name(l);
            if (!l.inv.empty() || !l.rate.empty()) s += " { " + l.inv + (l.rate.empty() ? "" : " ; " + l.rate) + " }";
        }
        s += ";\n";
        if (!t.bps.empty()) { s += " branchpoint "; for (size_t i = 0; i < t.bps.size(); i++) s += (i ? ", _" : "_") + t.bps[i]; s += ";\n"; }
        std::string c, u;
        for (auto& l : t.locs) { if (l.committed) c += (c.empty() ? "" : ", ") + loc_name(l); if (l.urgent) u += (u.empty() ? "" : ", ") + loc_name(l); }
        if (!c.empty()) s += " commit " + c + ";\n";
        if (!u.empty()) s += " urgent " + u + ";\n";
        s += " init " + (!t.init_name_override.empty() ? t.init_name_override : loc_name(t.locs[t.init])) + ";\n";
        if (!t.edges.empty()) {
            s += " trans\n";
            for (size_t i = 0; i < t.edges.size(); i++) {
                auto& e = t.edges[i];
                // with `chain`, an edge that starts where the previous one started is written in the chained form ", -> target { ... }" (no probability there)
                bool chained = chain && i > 0 && e.src == t.edges[i - 1].src && e.src_bp == t.edges[i - 1].src_bp && e.prob.empty();
                s += std::string(i ? ",\n  " : "  ") + (chained ? "" : (e.src_bp ? "_" + t.bps[e.src] : loc_name(t.locs[e.src]))) + (edge_control(e) ? " -> " : " -u-> ") + (!e.dst_name_override.empty() ? e.dst_name_override : e.dst_bp ? "_" + t.bps[e.dst] : loc_name(t.locs[e.dst])) + " {";
                if (!e.select.empty()) s += " select " + e.select + ";";
                if (!e.guard.empty()) s += " guard " + e.guard + ";";
                if (!e.sync.empty()) s += " sync " + e.sync + ";";
                if (!e.assign.empty()) s += " assign " + e.assign + ";";
                if (!e.prob.empty()) s += " probability " + e.prob + ";";
                s += " }";
            }
            s += ";\n";
        }
        s += "}\n";
    }
    s += m.system + "\n";
    return s;
}

// ---------------------------------------------------------------- writer side: element tree of what the XMLWriter produced
struct WEl { std::string name, text; std::vector<std::pair<std::string, std::string>> attrs; std::vector<WEl> kids;
    const std::string* attr(const char* n) const { for (auto& a : attrs) if (a.first == n) return &a.second; return nullptr; }
    std::vector<const WEl*> children(const char* n) const { std::vector<const WEl*> r; for (auto& k : kids) if (k.name == n) r.push_back(&k); return r; } };
int32_t write_XML_file(const char* filename, UTAP::Document* doc);
#ifndef VF_NATIVE
// writer model (IR build only): every xmlTextWriter* call appends to a tree under construction and returns success
static WEl vf_w_root; static std::vector<WEl*> vf_w_stack; static bool vf_w_started = false, vf_w_ended = false; static int vf_w_unbalanced = 0;
static void* vf_xml_malloc(size_t n) { return malloc(n); }
static void* vf_xml_realloc(void* p, size_t n) { return realloc(p, n); }
xmlMallocFunc xmlMalloc = vf_xml_malloc;
xmlReallocFunc xmlRealloc = vf_xml_realloc;
static int vf_identity_input(unsigned char* out, int* outlen, const unsigned char* in, int* inlen)
{ int n = *inlen < *outlen ? *inlen : *outlen; memcpy(out, in, n); *outlen = n; *inlen = n; return n; }
static xmlCharEncodingHandler vf_utf8_handler = {(char*)"UTF-8", vf_identity_input, nullptr};
extern "C" {
xmlCharEncodingHandlerPtr xmlFindCharEncodingHandler(const char*) { return &vf_utf8_handler; }
xmlTextWriterPtr xmlNewTextWriterFilename(const char*, int) { vf_w_root = WEl{}; vf_w_root.name = "#document"; vf_w_stack.clear(); vf_w_stack.push_back(&vf_w_root); vf_w_started = vf_w_ended = false; vf_w_unbalanced = 0; return (xmlTextWriterPtr)&vf_w_root; }
void xmlFreeTextWriter(xmlTextWriterPtr) {}
int xmlTextWriterStartDocument(xmlTextWriterPtr, const char*, const char*, const char*) { vf_w_started = true; return 0; }
int xmlTextWriterEndDocument(xmlTextWriterPtr) { vf_w_ended = true; vf_w_unbalanced = (int)vf_w_stack.size() - 1; return 0; }
int xmlTextWriterWriteDTD(xmlTextWriterPtr, const xmlChar*, const xmlChar*, const xmlChar*, const xmlChar*) { return 0; }
int xmlTextWriterSetIndent(xmlTextWriterPtr, int) { return 0; }
int xmlTextWriterSetIndentString(xmlTextWriterPtr, const xmlChar*) { return 0; }
int xmlTextWriterStartElement(xmlTextWriterPtr, const xmlChar* n) { vf_w_stack.back()->kids.push_back(WEl{}); WEl* e = &vf_w_stack.back()->kids.back(); e->name = (const char*)n; vf_w_stack.push_back(e); return 0; }
int xmlTextWriterEndElement(xmlTextWriterPtr) { if (vf_w_stack.size() <= 1) return -1; vf_w_stack.pop_back(); return 0; }
int xmlTextWriterWriteAttribute(xmlTextWriterPtr, const xmlChar* n, const xmlChar* v) { if (!vf_w_stack.back()->kids.empty() || !vf_w_stack.back()->text.empty()) return -1; vf_w_stack.back()->attrs.push_back({(const char*)n, (const char*)v}); return 0; }
int xmlTextWriterWriteString(xmlTextWriterPtr, const xmlChar* t) { vf_w_stack.back()->text += (const char*)t; return 0; }
int xmlTextWriterWriteElement(xmlTextWriterPtr, const xmlChar* n, const xmlChar* t) { WEl e; e.name = (const char*)n; e.text = t ? (const char*)t : ""; vf_w_stack.back()->kids.push_back(e); return 0; }
}
static inline bool write_xml(Document& doc, WEl& out, std::string& problem)
{
    write_XML_file("/nonexistent/vf.xml", &doc);
    if (!vf_w_started || !vf_w_ended) { problem = "document not started/ended"; return false; }
    if (vf_w_unbalanced != 0) { problem = "unbalanced elements at end of document"; return false; }
    if (vf_w_root.kids.size() != 1) { problem = "not exactly one root element"; return false; }
    out = vf_w_root.kids[0];
    return true;
}
#else
#include <libxml/parser.h>
#include <libxml/tree.h>
#include <unistd.h>
static inline void vf_w_convert(xmlNodePtr n, WEl& e)
{
    e.name = (const char*)n->name;
    for (xmlAttrPtr a = n->properties; a; a = a->next) { xmlChar* v = xmlGetProp(n, a->name); e.attrs.push_back({(const char*)a->name, v ? (const char*)v : ""}); xmlFree(v); }
    for (xmlNodePtr c = n->children; c; c = c->next) {
        if (c->type == XML_ELEMENT_NODE) { e.kids.push_back(WEl{}); vf_w_convert(c, e.kids.back()); }
        else if (c->type == XML_TEXT_NODE || c->type == XML_CDATA_SECTION_NODE) { std::string t = (const char*)c->content; bool blank = true; for (char ch : t) if (!isspace((unsigned char)ch)) blank = false; if (!blank || (!n->children->next)) e.text += t; }
    }
}
// native: the real writer into a temporary file, re-read with libxml2's independent tree parser (this is where well-formedness of the bytes is checked)
static inline bool write_xml(Document& doc, WEl& out, std::string& problem)
{
    char fn[] = "/tmp/vf_c20_XXXXXX";
    int fd = mkstemp(fn); if (fd >= 0) close(fd);
    write_XML_file(fn, &doc);
    xmlDocPtr d = xmlReadFile(fn, nullptr, XML_PARSE_NONET | XML_PARSE_NOERROR | XML_PARSE_NOWARNING);
    unlink(fn);
    if (!d) { problem = "output is not well-formed XML"; return false; }
    xmlNodePtr r = xmlDocGetRootElement(d);
    if (!r) { problem = "no root element"; xmlFreeDoc(d); return false; }
    vf_w_convert(r, out);
    xmlFreeDoc(d);
    return true;
}
#endif
#endif
