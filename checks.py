# registry of checks: property -> harness files, explanation of the level, extra (non-llsx) obligations
STD_ASSUME = []
NA = {}  # property -> reason, for properties not claimed
CHECKS = {
 'C18': dict(files=['C18_range.cpp'],
   explanation='Every member of range_t<T> from include/utap/range.h is compiled (clang-14 -O1) for int8_t, int16_t, int32_t and double and executed symbolically; all operands and the probe element are symbolic bit-vectors, the assertion is membership-in-result <=> set-theoretic definition computed in 64-bit arithmetic, so Z3 decides each law for every operand value at once (one path per operation). range*range is split into 16 sign cases. double: comparison-only operations over all non-NaN doubles with the FP theory; gt/lt on a 13-value boundary pool because nexttoward is executed concretely.',
   assumptions=['operands are non-empty intervals and results fit in T (the property\'s precondition), encoded as vf_assume on the symbolic operands', 'NaN bounds excluded for double']),
}
