# registry of checks: property -> harness files, explanation of the level, extra (non-llsx) obligations
STD_ASSUME = []
NA = {}  # property -> reason, for properties not claimed
CHECKS = {
 'C18': dict(files=['C18_range.cpp'],
   explanation='Every member of range_t<T> from include/utap/range.h is compiled (clang-14 -O1) for int8_t, int16_t, int32_t and double and executed symbolically; all operands and the probe element are symbolic bit-vectors, the assertion is membership-in-result <=> set-theoretic definition computed in 64-bit arithmetic, so Z3 decides each law for every operand value at once (one path per operation). range*range is split into 16 sign cases. double: comparison-only operations over all non-NaN doubles with the FP theory; gt/lt on a 13-value boundary pool because nexttoward is executed concretely.',
   assumptions=['operands are non-empty intervals and results fit in T (the property\'s precondition), encoded as vf_assume on the symbolic operands', 'NaN bounds excluded for double']),
 'C14': dict(files=['C14_symmetry.cpp'],
   explanation='Expression text for both operand orders is parsed by the real lexer/grammar/ExpressionBuilder in a document with variables of every operand class of the property, then typed by the real TypeChecker::checkExpression. Symbolic (eagerly forked) inputs: operator among the 11 commutative ones, both operand forms from a 24-entry pool (identifiers, constants and small expressions of int, bounded int, bool, double, clock, clock difference, scalar, struct, array, channel, string); inline-if c?a:b vs !c?b:a over the same pool; reference parameters T& / const T& against arguments of 11 types in both roles. Oracle: verdict and result type kind must be equal for the two orders.',
   assumptions=['operand forms are the 24 listed in the harness; nesting deeper than one operator inside an operand is outside the claim']),
 'C10': dict(files=['C10_convex.cpp'],
   explanation='A formula tree over the connectives &&, ||, !, imply, xor, ==, !=, forall, exists and leaves {integer predicate, clock bound, clock difference bound, boolean} is chosen symbolically, rendered fully parenthesised, placed as the guard of an edge or the invariant of a location of a whole-file XTA model, and pushed through the real lexer, grammar, DocumentBuilder and TypeChecker (visitEdge/visitLocation/checkExpression). Oracle convex(f) is written from the property statement. Assertions: accepted => convex(f); pure conjunction of atoms => accepted.',
   assumptions=['formula depth and leaf pool as stated per harness; quantifier domain int[0,1]; acceptance = no error diagnostic after parse + TypeChecker (warnings ignored)']),
}
